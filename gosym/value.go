package main

import (
	"fmt"
	"go/types"
	"strings"

	"golang.org/x/tools/go/ssa"
)

// Value is one of:
//   *Term (bool, integers, floats), *Agg (struct/array/tuple), Ptr, Slice, *Str,
//   MapRef, ChanRef, *Iface (nil interface = (*Iface)(nil)), *Closure (nil func = (*Closure)(nil)),
//   *MapIter, nil (unset)
type Value interface{}

type Agg struct{ E []Value }

type PathElem struct {
	I   int
	Sym *Term // BV64 index term if symbolic
	N   int   // number of elements at this level (for symbolic)
}

type Ptr struct {
	Obj  int // 0 = nil
	Path []PathElem
}

type Slice struct {
	Arr           Ptr // points to an array value (Agg)
	Off, Len, Cap int
	Nil           bool
}

// Str is a string. Concrete strings keep S; symbolic strings are sequences of
// runes (each a BV32 term, possibly constant). A symbolic string is always valid
// UTF-8 by construction (it denotes the encoding of its runes).
type Str struct {
	S     string
	Runes []*Term
	Sym   bool
}

type MapRef struct{ Obj int }
type ChanRef struct{ Obj int }

type Iface struct {
	T types.Type
	V Value
}

type Closure struct {
	Fn   *ssa.Function
	Free []Value
	B    *ssa.Builtin
	// bound method of an intercepted object
	Native string
	Recv   Value
}

type MapEntry struct {
	K, V    Value
	Present *Term
}

type MapObj struct {
	E []MapEntry
}

type ChanObj struct {
	Buf    []Value
	Cap    int
	Closed bool
}

type MapIter struct {
	Keys, Vals []Value
	Pres       []*Term // presence condition per entry (maps with symbolic keys)
	Pos        int
	IsStr      bool
	Runes      []*Term
}

func mkStr(s string) *Str { return &Str{S: s} }

func (s *Str) RuneTerms() []*Term {
	if s.Sym {
		return s.Runes
	}
	var out []*Term
	for _, r := range s.S {
		out = append(out, BVC(32, uint64(uint32(r))))
	}
	return out
}

// normalise turns a symbolic string with all-constant runes into a concrete one.
func normStr(runes []*Term) *Str {
	var sb strings.Builder
	for _, r := range runes {
		if r.Op != OConst {
			return &Str{Sym: true, Runes: runes}
		}
		sb.WriteRune(rune(int32(uint32(r.C))))
	}
	return &Str{S: sb.String()}
}

func isNilValue(v Value) bool {
	switch x := v.(type) {
	case nil:
		return true
	case Ptr:
		return x.Obj == 0
	case Slice:
		return x.Nil
	case MapRef:
		return x.Obj == 0
	case ChanRef:
		return x.Obj == 0
	case *Iface:
		return x == nil
	case *Closure:
		return x == nil
	}
	return false
}

func sortOfBasic(b *types.Basic) (Sort, bool) {
	switch b.Kind() {
	case types.Bool, types.UntypedBool:
		return BoolSort, true
	case types.Int8, types.Uint8:
		return BV(8), true
	case types.Int16, types.Uint16:
		return BV(16), true
	case types.Int32, types.Uint32, types.UntypedRune:
		return BV(32), true
	case types.Int, types.Uint, types.Int64, types.Uint64, types.Uintptr, types.UntypedInt:
		return BV(64), true
	case types.Float32:
		return FP32Sort, true
	case types.Float64, types.UntypedFloat:
		return FP64Sort, true
	}
	return Sort{}, false
}

func isSigned(t types.Type) bool {
	b, ok := t.Underlying().(*types.Basic)
	if !ok {
		return false
	}
	return b.Info()&types.IsInteger != 0 && b.Info()&types.IsUnsigned == 0
}

func isInteger(t types.Type) bool {
	b, ok := t.Underlying().(*types.Basic)
	return ok && b.Info()&types.IsInteger != 0
}

func isFloat(t types.Type) bool {
	b, ok := t.Underlying().(*types.Basic)
	return ok && b.Info()&types.IsFloat != 0
}

func isString(t types.Type) bool {
	b, ok := t.Underlying().(*types.Basic)
	return ok && b.Info()&types.IsString != 0
}

func zeroValue(t types.Type) Value {
	switch u := t.Underlying().(type) {
	case *types.Basic:
		if u.Info()&types.IsString != 0 {
			return mkStr("")
		}
		if u.Kind() == types.UnsafePointer {
			return Ptr{}
		}
		if u.Kind() == types.UntypedNil {
			return nil
		}
		s, ok := sortOfBasic(u)
		if !ok {
			panic(fmt.Sprintf("zeroValue: unsupported basic %v", u))
		}
		switch s.K {
		case SBool:
			return FalseT
		case SBV:
			return BVC(s.W, 0)
		case SFP32:
			return FP32C(0)
		case SFP64:
			return FP64C(0)
		}
	case *types.Struct:
		a := &Agg{E: make([]Value, u.NumFields())}
		for i := range a.E {
			a.E[i] = zeroValue(u.Field(i).Type())
		}
		return a
	case *types.Array:
		n := int(u.Len())
		a := &Agg{E: make([]Value, n)}
		if n > 0 {
			z := zeroValue(u.Elem())
			for i := range a.E {
				a.E[i] = z
			}
		}
		return a
	case *types.Tuple:
		a := &Agg{E: make([]Value, u.Len())}
		for i := range a.E {
			a.E[i] = zeroValue(u.At(i).Type())
		}
		return a
	case *types.Pointer:
		return Ptr{}
	case *types.Slice:
		return Slice{Nil: true}
	case *types.Map:
		return MapRef{}
	case *types.Chan:
		return ChanRef{}
	case *types.Interface:
		return (*Iface)(nil)
	case *types.Signature:
		return (*Closure)(nil)
	}
	panic(fmt.Sprintf("zeroValue: unsupported type %v", t))
}

func pathEq(a, b []PathElem) bool {
	if len(a) != len(b) {
		return false
	}
	for i := range a {
		if a[i].I != b[i].I || a[i].Sym != b[i].Sym {
			if a[i].Sym != nil && b[i].Sym != nil && SameTerm(a[i].Sym, b[i].Sym) {
				continue
			}
			return false
		}
	}
	return true
}

func ptrEq(a, b Ptr) bool { return a.Obj == b.Obj && pathEq(a.Path, b.Path) }

func extendPath(p []PathElem, e PathElem) []PathElem {
	np := make([]PathElem, len(p)+1)
	copy(np, p)
	np[len(p)] = e
	return np
}

func fmtValue(v Value) string {
	switch x := v.(type) {
	case nil:
		return "<nil>"
	case *Term:
		if x.Op == OConst {
			switch x.S.K {
			case SBool:
				return fmt.Sprint(x.C != 0)
			case SFP32:
				return fmt.Sprint(x.F32())
			case SFP64:
				return fmt.Sprint(x.F64())
			}
			return fmt.Sprintf("%d", x.C)
		}
		return fmt.Sprintf("<sym t%d>", x.ID)
	case *Agg:
		var parts []string
		for _, e := range x.E {
			parts = append(parts, fmtValue(e))
			if len(parts) > 16 {
				parts = append(parts, "...")
				break
			}
		}
		return "{" + strings.Join(parts, " ") + "}"
	case Ptr:
		return fmt.Sprintf("&obj%d%v", x.Obj, x.Path)
	case Slice:
		return fmt.Sprintf("slice(obj%d off=%d len=%d)", x.Arr.Obj, x.Off, x.Len)
	case *Str:
		if x.Sym {
			return fmt.Sprintf("<symstr len %d>", len(x.Runes))
		}
		return fmt.Sprintf("%q", x.S)
	case *Iface:
		if x == nil {
			return "nil-iface"
		}
		return fmt.Sprintf("iface(%v:%s)", x.T, fmtValue(x.V))
	case *Closure:
		if x == nil {
			return "nil-func"
		}
		if x.Fn != nil {
			return "func " + x.Fn.String()
		}
		return "func <builtin>"
	}
	return fmt.Sprintf("%T", v)
}
