package main

import (
	"fmt"
	"reflect"
	"go/constant"
	"go/token"
	"go/types"
	"hash/fnv"
	"math/bits"
	"strings"

	"golang.org/x/tools/go/ssa"
)

type Config struct {
	MergeCalls  bool
	MergeIfs    bool
	LazyIf      bool
	Threads     bool
	MaxPreempt  int
	SchedRR     bool
	TimeZero    bool
	Tier        string
	Seed        uint64
	Replace     map[string]string
	HarnessPkg  string
	NoMerge     []string // substrings of function names never merged
	Unwind      int
	MaxSteps    int
	SolverKind  string
	TimeoutMs   int
	MaxViol     int
	Verbose     bool
	SplitPrefix []uint64
	LogSMT      string
}

type Violation struct {
	Kind    string // "assert" | "panic"
	Msg     string
	Site    string
	Nondets []NondetVal
	Notes   []string
	Splits  []uint64
}

type NondetVal struct {
	Kind string `json:"kind"`
	Name string `json:"name"`
	Bits uint64 `json:"bits"`
}

type Report struct {
	Paths        int
	Asserts      int // assertion instances decided
	Proven       int
	Trivial      int
	Violations   []Violation
	Unknowns     []string
	Unsupported  []string
	UnwoundOut   int
	AssumePruned int
	Reached      map[string]int
	Samples      []string
	Forks        int
	LazyForks    int
	Schedules    int
	Infeasible   int
	Merges       int
	MergeFails   int
	Steps        int
	Funcs        map[string]bool
	Stubs        map[string]bool
	SubTasks     [][]uint64 // verifSplit tasks spawned
	MaxTermSize  int
	Witnesses    [][]NondetVal
}

func NewReport() *Report {
	return &Report{Reached: map[string]int{}, Funcs: map[string]bool{}, Stubs: map[string]bool{}}
}

type Exec struct {
	p      *Program
	ctx    *TermCtx
	sol    *Solver
	cfg    *Config
	rep    *Report
	nviol  int
	abort  bool
	depth  int // nested exploration depth
	initMode    bool
	splitTasks  bool
	noMergePats []string
	noMergeMemo map[*ssa.Function]bool
	initDone    map[*ssa.Function]bool
	boundOK     map[int]bool
	reachSeen   map[string]bool
	lazyFail    map[[2]interface{}]int
	boundPC     map[int][]*Term
}

// isEagerFn: branches in these functions are always decided by the solver (their arms
// rarely merge and are often infeasible: rune-by-rune text processing).
func (ex *Exec) isEagerFn(fn *ssa.Function) bool {
	if fn.Pkg != nil && strings.HasSuffix(fn.Pkg.Pkg.Path(), "/verifrt") {
		return true
	}
	return false
}

func (ex *Exec) isNoMerge(fn *ssa.Function) bool {
	if len(ex.noMergePats) == 0 {
		return false
	}
	if v, ok := ex.noMergeMemo[fn]; ok {
		return v
	}
	if ex.noMergeMemo == nil {
		ex.noMergeMemo = map[*ssa.Function]bool{}
	}
	name := fn.String()
	r := false
	for _, p := range ex.noMergePats {
		if strings.Contains(name, p) {
			r = true
		}
	}
	ex.noMergeMemo[fn] = r
	return r
}

type execPanic struct{ msg string } // unsupported feature -> path ends inconclusive

func unsupported(format string, a ...interface{}) {
	panic(execPanic{fmt.Sprintf(format, a...)})
}

// ------------------------------------------------------------------
// solver helpers

func (ex *Exec) modelHolds(st *State, t *Term) (bool, bool) {
	if st.model == nil {
		return false, false
	}
	return EvalTerm(t, st.model, ex.memoFor(st)) != 0, true
}

// memoFor returns the evaluation cache for the state's current model (terms are
// immutable, so the cache is valid for as long as the model object is the same).
func (ex *Exec) memoFor(st *State) map[*Term]uint64 {
	p := reflect.ValueOf(st.model).Pointer()
	if st.memoPtr != p || st.memo == nil {
		st.memo = map[*Term]uint64{}
		st.memoPtr = p
	}
	return st.memo
}

func (ex *Exec) modelHoldsAll(st *State) (bool, bool) {
	if st.model == nil {
		return false, false
	}
	memo := ex.memoFor(st)
	for _, c := range st.pc {
		if EvalTerm(c, st.model, memo) == 0 {
			return false, true
		}
	}
	return true, true
}

// pathFeasible: is the path condition satisfiable (unknown counts as feasible)?
func (ex *Exec) pathFeasible(st *State) bool {
	if ok, have := ex.modelHoldsAll(st); have && ok {
		return true
	}
	if ex.sol == nil {
		return true
	}
	r, m := ex.sol.Check(st.pc, true, nil)
	if r == Sat {
		st.model = m
	}
	return r != Unsat
}

// feasible reports whether pc ∧ cond is satisfiable; returns a model when sat.
func (ex *Exec) feasible(st *State, cond *Term) (Res, Model) {
	if cond.Op == OConst {
		if cond.C == 0 {
			return Unsat, nil
		}
		return Sat, st.model
	}
	if ok, have := ex.modelHolds(st, cond); have && ok {
		return Sat, st.model
	}
	q := append(append([]*Term{}, st.pc...), cond)
	if len(st.threads) > 0 && len(st.thread().stack) > 0 {
		ex.sol.Purpose = "feasibility at " + ex.site(st.thread().top())
	}
	r, m := ex.sol.Check(q, true, nil)
	return r, m
}

func (ex *Exec) addPC(st *State, c *Term) {
	if c.Op == OConst && c.C != 0 {
		return
	}
	st.pc = append(st.pc, c)
}

// ------------------------------------------------------------------
// operand evaluation

func (ex *Exec) constValue(c *ssa.Const) Value {
	t := c.Type()
	if c.Value == nil {
		return zeroValue(t)
	}
	switch u := t.Underlying().(type) {
	case *types.Basic:
		if u.Info()&types.IsString != 0 {
			return mkStr(constant.StringVal(c.Value))
		}
		s, ok := sortOfBasic(u)
		if !ok {
			unsupported("const of type %v", t)
		}
		switch s.K {
		case SBool:
			return BoolC(constant.BoolVal(c.Value))
		case SBV:
			if u.Info()&types.IsUnsigned != 0 {
				v, _ := constant.Uint64Val(constant.ToInt(c.Value))
				return BVC(s.W, v)
			}
			v, ok := constant.Int64Val(constant.ToInt(c.Value))
			if !ok {
				uv, _ := constant.Uint64Val(constant.ToInt(c.Value))
				return BVC(s.W, uv)
			}
			return BVC(s.W, uint64(v))
		case SFP32:
			f, _ := constant.Float32Val(c.Value)
			return FP32C(f)
		case SFP64:
			f, _ := constant.Float64Val(c.Value)
			return FP64C(f)
		}
	}
	unsupported("const %v of type %v", c, t)
	return nil
}

func (ex *Exec) operand(st *State, f *Frame, v ssa.Value) Value {
	switch x := v.(type) {
	case *ssa.Const:
		return ex.constValue(x)
	case *ssa.Global:
		id, ok := ex.p.globals[x]
		if !ok {
			unsupported("unknown global %v", x)
		}
		return Ptr{Obj: id}
	case *ssa.Function:
		return &Closure{Fn: x}
	case *ssa.Builtin:
		return &Closure{B: x}
	}
	i, ok := f.info.idx[v]
	if !ok {
		unsupported("no slot for value %v in %v", v, f.fn)
	}
	return f.locals[i]
}

func (f *Frame) set(v ssa.Value, val Value) {
	f.locals[f.info.idx[v]] = val
}

// ------------------------------------------------------------------
// memory

func (ex *Exec) tableFor(vals []Value, key *Agg) *Table {
	n := len(vals)
	if n < 16 {
		return nil
	}
	var w int
	for _, v := range vals {
		t, ok := v.(*Term)
		if !ok || t.Op != OConst || t.S.K != SBV {
			return nil
		}
		if w == 0 {
			w = t.S.W
		} else if w != t.S.W {
			return nil
		}
	}
	ex.p.tabMu.Lock()
	defer ex.p.tabMu.Unlock()
	if key != nil {
		if tb, ok := ex.p.tabCache[key]; ok {
			return tb
		}
	}
	data := make([]uint64, n)
	h := fnv.New64a()
	for i, v := range vals {
		data[i] = v.(*Term).C
		var b [8]byte
		for k := 0; k < 8; k++ {
			b[k] = byte(data[i] >> uint(8*k))
		}
		h.Write(b[:])
	}
	iw := bits.Len(uint(n - 1))
	if iw == 0 {
		iw = 1
	}
	tb := NewTable(fmt.Sprintf("tab%d_%d_%x", n, w, h.Sum64()), data, iw, w)
	if key != nil {
		ex.p.tabCache[key] = tb
	}
	return tb
}

func (ex *Exec) selectValues(idx *Term, vals []Value, key *Agg) Value {
	n := len(vals)
	if n == 0 {
		unsupported("select on empty aggregate")
	}
	if tb := ex.tableFor(vals, key); tb != nil {
		tt := ex.ctx.TableTerm(tb)
		return ex.ctx.Select(tt, ex.ctx.Extract(tb.IW-1, 0, idx))
	}
	r := vals[n-1]
	for i := n - 2; i >= 0; i-- {
		c := ex.ctx.Eq(idx, BVC(idx.S.W, uint64(i)))
		var ok bool
		r, ok = ex.mergeValue(c, vals[i], r)
		if !ok {
			unsupported("symbolic index over non-mergeable elements")
		}
	}
	return r
}

func (ex *Exec) loadPath(v Value, path []PathElem) Value {
	for len(path) > 0 {
		agg, ok := v.(*Agg)
		if !ok {
			unsupported("loadPath through %T", v)
		}
		e := path[0]
		if e.Sym == nil {
			if e.I < 0 || e.I >= len(agg.E) {
				unsupported("internal: path index %d out of range %d", e.I, len(agg.E))
			}
			v = agg.E[e.I]
			path = path[1:]
			continue
		}
		rest := path[1:]
		if len(rest) == 0 {
			return ex.selectValues(e.Sym, agg.E, agg)
		}
		vals := make([]Value, len(agg.E))
		for i := range agg.E {
			vals[i] = ex.loadPath(agg.E[i], rest)
		}
		return ex.selectValues(e.Sym, vals, nil)
	}
	return v
}

func (ex *Exec) storePath(v Value, path []PathElem, nv Value) Value {
	if len(path) == 0 {
		return nv
	}
	agg, ok := v.(*Agg)
	if !ok {
		unsupported("storePath through %T", v)
	}
	e := path[0]
	na := &Agg{E: make([]Value, len(agg.E))}
	copy(na.E, agg.E)
	if e.Sym == nil {
		na.E[e.I] = ex.storePath(agg.E[e.I], path[1:], nv)
		return na
	}
	for i := range agg.E {
		c := ex.ctx.Eq(e.Sym, BVC(e.Sym.S.W, uint64(i)))
		upd := ex.storePath(agg.E[i], path[1:], nv)
		m, ok := ex.mergeValue(c, upd, agg.E[i])
		if !ok {
			unsupported("symbolic store over non-mergeable elements")
		}
		na.E[i] = m
	}
	return na
}

func (ex *Exec) load(st *State, p Ptr) Value {
	if p.Obj == 0 {
		return nil // caller must have checked
	}
	return ex.loadPath(ex.p.loadObj(st, p.Obj), p.Path)
}

func (ex *Exec) store(st *State, p Ptr, v Value) {
	old := ex.p.loadObj(st, p.Obj)
	st.heap[p.Obj] = ex.storePath(old, p.Path, v)
}

// mergeValue builds ite(c, a, b) structurally; ok=false if impossible.
func (ex *Exec) mergeValue(c *Term, a, b Value) (Value, bool) {
	if c.Op == OConst {
		if c.C != 0 {
			return a, true
		}
		return b, true
	}
	switch x := a.(type) {
	case nil:
		if b == nil {
			return nil, true
		}
		return nil, false
	case *Term:
		y, ok := b.(*Term)
		if !ok || x.S != y.S {
			return nil, false
		}
		return ex.ctx.Ite(c, x, y), true
	case *Agg:
		y, ok := b.(*Agg)
		if !ok || len(x.E) != len(y.E) {
			return nil, false
		}
		if x == y {
			return x, true
		}
		var r *Agg
		for i := range x.E {
			if sameValue(x.E[i], y.E[i]) {
				continue
			}
			m, ok := ex.mergeValue(c, x.E[i], y.E[i])
			if !ok {
				return nil, false
			}
			if r == nil {
				r = &Agg{E: make([]Value, len(x.E))}
				copy(r.E, x.E)
			}
			r.E[i] = m
		}
		if r == nil {
			return x, true
		}
		return r, true
	case Ptr:
		y, ok := b.(Ptr)
		if !ok || !ptrEq(x, y) {
			return nil, false
		}
		return x, true
	case Slice:
		y, ok := b.(Slice)
		if !ok || x.Nil != y.Nil || x.Off != y.Off || x.Len != y.Len || x.Cap != y.Cap || !ptrEq(x.Arr, y.Arr) {
			return nil, false
		}
		return x, true
	case *Str:
		y, ok := b.(*Str)
		if !ok {
			return nil, false
		}
		if !x.Sym && !y.Sym {
			if x.S == y.S {
				return x, true
			}
		}
		xr, yr := x.RuneTerms(), y.RuneTerms()
		if len(xr) != len(yr) {
			return nil, false
		}
		out := make([]*Term, len(xr))
		for i := range xr {
			out[i] = ex.ctx.Ite(c, xr[i], yr[i])
		}
		return normStr(out), true
	case MapRef:
		y, ok := b.(MapRef)
		return x, ok && x == y
	case ChanRef:
		y, ok := b.(ChanRef)
		return x, ok && x == y
	case *Iface:
		y, ok := b.(*Iface)
		if !ok {
			return nil, false
		}
		if x == nil || y == nil {
			return x, x == nil && y == nil
		}
		if !types.Identical(x.T, y.T) {
			return nil, false
		}
		m, ok := ex.mergeValue(c, x.V, y.V)
		if !ok {
			return nil, false
		}
		return &Iface{T: x.T, V: m}, true
	case *Closure:
		y, ok := b.(*Closure)
		if !ok {
			return nil, false
		}
		if x == nil || y == nil {
			return x, x == nil && y == nil
		}
		if x == y {
			return x, true
		}
		if x.Fn != y.Fn || x.B != y.B || x.Native != y.Native || len(x.Free) != len(y.Free) {
			return nil, false
		}
		nf := make([]Value, len(x.Free))
		for i := range x.Free {
			m, ok := ex.mergeValue(c, x.Free[i], y.Free[i])
			if !ok {
				return nil, false
			}
			nf[i] = m
		}
		var recv Value
		if x.Recv != nil || y.Recv != nil {
			recv, ok = ex.mergeValue(c, x.Recv, y.Recv)
			if !ok {
				return nil, false
			}
		}
		return &Closure{Fn: x.Fn, B: x.B, Native: x.Native, Free: nf, Recv: recv}, true
	case *MapIter:
		y, ok := b.(*MapIter)
		if ok && x == y {
			return x, true
		}
		if ok && x.Pos == y.Pos && len(x.Keys) == len(y.Keys) && x.IsStr == y.IsStr && len(x.Runes) == len(y.Runes) {
			same := true
			for i := range x.Keys {
				if !sameValue(x.Keys[i], y.Keys[i]) || !sameValue(x.Vals[i], y.Vals[i]) {
					same = false
				}
			}
			for i := range x.Runes {
				if !SameTerm(x.Runes[i], y.Runes[i]) {
					same = false
				}
			}
			if same {
				return x, true
			}
		}
		return nil, false
	}
	return nil, false
}

// valueEq builds the term for Go's == on two values of the same static type.
func (ex *Exec) valueEq(a, b Value) *Term {
	switch x := a.(type) {
	case nil:
		return BoolC(isNilValue(b))
	case *Term:
		y := b.(*Term)
		if x.S.K == SFP32 || x.S.K == SFP64 {
			return ex.ctx.fpbin(OFPEq, x, y)
		}
		return ex.ctx.Eq(x, y)
	case *Agg:
		y := b.(*Agg)
		r := TrueT
		for i := range x.E {
			r = ex.ctx.And(r, ex.valueEq(x.E[i], y.E[i]))
		}
		return r
	case Ptr:
		y, ok := b.(Ptr)
		if !ok {
			return BoolC(x.Obj == 0 && isNilValue(b))
		}
		if x.Obj != y.Obj || len(x.Path) != len(y.Path) {
			return FalseT
		}
		r := TrueT
		for i := range x.Path {
			p, q := x.Path[i], y.Path[i]
			if p.Sym == nil && q.Sym == nil {
				if p.I != q.I {
					return FalseT
				}
				continue
			}
			pt, qt := p.Sym, q.Sym
			if pt == nil {
				pt = BVC(64, uint64(p.I))
			}
			if qt == nil {
				qt = BVC(64, uint64(q.I))
			}
			r = ex.ctx.And(r, ex.ctx.Eq(pt, qt))
		}
		return r
	case *Str:
		y := b.(*Str)
		if !x.Sym && !y.Sym {
			return BoolC(x.S == y.S)
		}
		xr, yr := x.RuneTerms(), y.RuneTerms()
		if len(xr) != len(yr) {
			// NOTE: rune-count inequality implies string inequality because symbolic
			// strings denote the UTF-8 encoding of exactly their runes.
			return FalseT
		}
		r := TrueT
		for i := range xr {
			r = ex.ctx.And(r, ex.ctx.Eq(xr[i], yr[i]))
		}
		return r
	case *Iface:
		y, ok := b.(*Iface)
		if !ok {
			return BoolC(x == nil && isNilValue(b))
		}
		if x == nil || y == nil {
			return BoolC(x == nil && y == nil)
		}
		if !types.Identical(x.T, y.T) {
			return FalseT
		}
		return ex.valueEq(x.V, y.V)
	case Slice:
		if isNilValue(b) {
			return BoolC(x.Nil)
		}
	case MapRef:
		if y, ok := b.(MapRef); ok {
			return BoolC(x == y)
		}
		return BoolC(x.Obj == 0 && isNilValue(b))
	case ChanRef:
		if y, ok := b.(ChanRef); ok {
			return BoolC(x == y)
		}
		return BoolC(x.Obj == 0 && isNilValue(b))
	case *Closure:
		if isNilValue(b) {
			return BoolC(x == nil)
		}
	}
	unsupported("valueEq on %T / %T", a, b)
	return nil
}

// ------------------------------------------------------------------
// outcomes

func (ex *Exec) site(f *Frame) string {
	if f == nil || f.block == nil {
		return "?"
	}
	var pos token.Pos
	if f.ip < len(f.block.Instrs) {
		pos = f.block.Instrs[f.ip].Pos()
	}
	for i := f.ip; pos == token.NoPos && i >= 0; i-- {
		if i < len(f.block.Instrs) {
			pos = f.block.Instrs[i].Pos()
		}
	}
	p := ex.p.prog.Fset.Position(pos)
	return fmt.Sprintf("%s (%s:%d)", f.fn.String(), shortFile(p.Filename), p.Line)
}

func shortFile(s string) string {
	if strings.HasPrefix(s, repoDir+"/") {
		return s[len(repoDir)+1:]
	}
	if i := strings.LastIndex(s, "/"); i >= 0 {
		return s[i+1:]
	}
	return s
}

func (ex *Exec) nondetVals(st *State, m Model) []NondetVal {
	memo := map[*Term]uint64{}
	var out []NondetVal
	for _, n := range st.nondets {
		out = append(out, NondetVal{Kind: n.Kind, Name: n.Name, Bits: EvalTerm(n.T, m, memo)})
	}
	return out
}

func (ex *Exec) recordViolation(st *State, kind, msg, site string, m Model) {
	ex.nviol++
	v := Violation{Kind: kind, Msg: msg, Site: site, Nondets: ex.nondetVals(st, m), Notes: append([]string(nil), st.notes...), Splits: append([]uint64(nil), st.splits...)}
	ex.rep.Violations = append(ex.rep.Violations, v)
	if ex.cfg.MaxViol > 0 && ex.nviol >= ex.cfg.MaxViol {
		ex.abort = true
	}
}

func (ex *Exec) endPath(st *State, why string) {
	st.ended = true
	if ex.depth == 0 || why != "" {
		// counted below
	}
	if why == "done" && ex.sol != nil {
		if ok, have := ex.modelHoldsAll(st); !have || !ok {
			r, m := ex.sol.Check(st.pc, true, nil)
			if r == Unsat {
				ex.rep.Infeasible++
				return
			}
			st.model = m
		}
		if st.model != nil && len(ex.rep.Witnesses) < 1 {
			ex.rep.Witnesses = append(ex.rep.Witnesses, ex.nondetVals(st, st.model))
		}
	}
	ex.rep.Paths++
	for _, r := range st.reached {
		ex.rep.Reached[r]++
	}
	if len(ex.rep.Samples) < 5 {
		if st.model != nil && len(st.nondets) > 0 {
			vals := ex.nondetVals(st, st.model)
			var sb strings.Builder
			for i, v := range vals {
				if i > 11 {
					sb.WriteString(" ...")
					break
				}
				fmt.Fprintf(&sb, " %s=%#x", v.Name, v.Bits)
			}
			ex.rep.Samples = append(ex.rep.Samples, fmt.Sprintf("path %d (%s):%s", ex.rep.Paths, why, sb.String()))
		}
	}
}

// doPanic starts a runtime panic in the current thread (uncaught panics are violations).
func (ex *Exec) doPanic(st *State, msg string) {
	th := st.thread()
	th.panicking = &PanicInfo{Msg: msg}
}
