package main

import (
	"go/token"
	"go/types"
	"strings"

	"golang.org/x/tools/go/ssa"
)

// visibleCallee reports whether a statically known callee is a synchronisation operation.
func visibleCallee(name string) bool {
	if strings.HasPrefix(name, "sync/atomic.") {
		short := name[len("sync/atomic."):]
		for _, p := range []string{"Load", "Store", "Add", "Swap", "CompareAndSwap", "And", "Or"} {
			if strings.HasPrefix(short, p) {
				return true
			}
		}
		return false
	}
	switch name {
	case "(*sync.Mutex).Lock", "(*sync.Mutex).Unlock", "(*sync.RWMutex).Lock", "(*sync.RWMutex).Unlock", "(*sync.RWMutex).RLock", "(*sync.RWMutex).RUnlock",
		"(*sync.WaitGroup).Add", "(*sync.WaitGroup).Done", "(*sync.WaitGroup).Wait":
		return true
	}
	return strings.HasSuffix(name, ".verifJoinAll") || strings.HasSuffix(name, ".verifYield")
}

func (st *State) isShared(p Ptr) bool {
	if st.shared == nil || p.Obj == 0 {
		return false
	}
	for _, q := range st.shared {
		if q.Obj == p.Obj && len(q.Path) <= len(p.Path) && pathEq(q.Path, p.Path[:len(q.Path)]) {
			return true
		}
	}
	return false
}

type access struct {
	p     Ptr
	write bool
	ok    bool
}

// nextAccess: the plain shared-memory access a thread is poised at (if any).
func (ex *Exec) nextAccess(st *State, th *Thread) access {
	if th.done || len(th.stack) == 0 {
		return access{}
	}
	f := th.top()
	if f.ip >= len(f.block.Instrs) {
		return access{}
	}
	switch x := f.block.Instrs[f.ip].(type) {
	case *ssa.UnOp:
		if x.Op == token.MUL {
			if p, ok := ex.operand(st, f, x.X).(Ptr); ok && st.isShared(p) {
				return access{p: p, ok: true}
			}
		}
	case *ssa.Store:
		if p, ok := ex.operand(st, f, x.Addr).(Ptr); ok && st.isShared(p) {
			return access{p: p, write: true, ok: true}
		}
	}
	return access{}
}

// atVisible: is the thread's next instruction a scheduling-relevant operation?
func (ex *Exec) atVisible(st *State, th *Thread) bool {
	if th.done || len(th.stack) == 0 {
		return true
	}
	f := th.top()
	if f.ip >= len(f.block.Instrs) {
		return false
	}
	switch x := f.block.Instrs[f.ip].(type) {
	case *ssa.Send, *ssa.Select, *ssa.Go:
		return true
	case *ssa.UnOp:
		if x.Op == token.ARROW {
			return true
		}
		return ex.nextAccess(st, th).ok
	case *ssa.Store:
		return ex.nextAccess(st, th).ok
	case *ssa.RunDefers:
		return len(f.defers) > 0
	case *ssa.Return:
		return len(th.stack) == 1
	case *ssa.Call:
		if x.Call.IsInvoke() {
			return false
		}
		switch c := x.Call.Value.(type) {
		case *ssa.Function:
			return visibleCallee(c.String())
		case *ssa.Builtin:
			return c.Name() == "close"
		}
	}
	return false
}

func (ex *Exec) mutexState(st *State, v Value) (Ptr, *Term) {
	p := v.(Ptr)
	cell := Ptr{Obj: p.Obj, Path: extendPath(p.Path, PathElem{I: 0})}
	cur, _ := ex.load(st, cell).(*Term)
	return cell, cur
}

// canProceed: would the thread's next (visible) operation complete without blocking?
func (ex *Exec) canProceed(st *State, th *Thread) bool {
	if th.done || len(th.stack) == 0 {
		return false
	}
	if th.ackChan != 0 {
		co := ex.p.loadObj(st, th.ackChan).(*ChanObj)
		return len(co.Buf) == 0
	}
	f := th.top()
	if f.ip >= len(f.block.Instrs) {
		return true
	}
	chanOf := func(v ssa.Value) *ChanObj {
		c, _ := ex.operand(st, f, v).(ChanRef)
		if c.Obj == 0 {
			return nil
		}
		return ex.p.loadObj(st, c.Obj).(*ChanObj)
	}
	switch x := f.block.Instrs[f.ip].(type) {
	case *ssa.Send:
		co := chanOf(x.Chan)
		if co == nil {
			return false
		}
		if co.Closed {
			return true
		}
		if co.Cap == 0 {
			return len(co.Buf) == 0
		}
		return len(co.Buf) < co.Cap
	case *ssa.UnOp:
		if x.Op == token.ARROW {
			co := chanOf(x.X)
			return co != nil && (len(co.Buf) > 0 || co.Closed)
		}
	case *ssa.Select:
		if !x.Blocking {
			return true
		}
		for _, s := range x.States {
			co := chanOf(s.Chan)
			if co == nil {
				continue
			}
			if s.Dir == types.RecvOnly {
				if len(co.Buf) > 0 || co.Closed {
					return true
				}
			} else if co.Closed || (co.Cap == 0 && len(co.Buf) == 0) || (co.Cap > 0 && len(co.Buf) < co.Cap) {
				return true
			}
		}
		return false
	case *ssa.Call:
		if fn, ok := x.Call.Value.(*ssa.Function); ok {
			name := fn.String()
			switch {
			case name == "(*sync.Mutex).Lock" || name == "(*sync.RWMutex).Lock" || name == "(*sync.RWMutex).RLock":
				_, cur := ex.mutexState(st, ex.operand(st, f, x.Call.Args[0]))
				return cur != nil && cur.Op == OConst && cur.C == 0
			case name == "(*sync.WaitGroup).Wait":
				n, _ := st.stub[wgKey(ex.operand(st, f, x.Call.Args[0]))].(*Term)
				return n == nil || (n.Op == OConst && n.C == 0)
			case strings.HasSuffix(name, ".verifJoinAll"):
				for _, o := range st.threads {
					if o != th && !o.done {
						return false
					}
				}
				return true
			}
		}
	}
	return true
}

// scheduleFork: the current thread is at a visible operation (or cannot continue):
// fork over the choice of the thread that performs its next visible operation.
func (ex *Exec) scheduleFork(st *State) []*State {
	cur := st.thread()
	// data race: two threads poised at conflicting plain accesses to a shared cell
	for i, a := range st.threads {
		aa := ex.nextAccess(st, a)
		if !aa.ok {
			continue
		}
		for _, b := range st.threads[i+1:] {
			ab := ex.nextAccess(st, b)
			if ab.ok && (aa.write || ab.write) && ptrEq(aa.p, ab.p) && !st.raceSeen {
				st.raceSeen = true
				if ex.pathFeasible(st) {
					ex.rep.Asserts++
					ex.recordViolation(st, "race", "data race: unsynchronised conflicting accesses at "+ex.site(a.top())+" and "+ex.site(b.top()), "race", st.model)
				}
			}
		}
	}
	var cands []int
	for i, t := range st.threads {
		if !t.done && ex.canProceed(st, t) {
			cands = append(cands, i)
		}
	}
	if len(cands) == 0 {
		alldone := true
		for _, t := range st.threads {
			if !t.done {
				alldone = false
			}
		}
		if alldone || st.threads[0].done {
			ex.endPath(st, "done")
			return nil
		}
		if ex.pathFeasible(st) {
			ex.rep.Asserts++
			var where []string
			for _, t := range st.threads {
				if !t.done {
					where = append(where, ex.site(t.top()))
				}
			}
			ex.recordViolation(st, "deadlock", "deadlock: every live thread is blocked: "+strings.Join(where, "; "), "deadlock", st.model)
		}
		ex.endPath(st, "deadlock")
		return nil
	}
	curRunnable := !cur.done && ex.canProceed(st, cur)
	if ex.cfg.SchedRR && !curRunnable && len(cands) > 1 {
		// round-robin hand-over: when the running thread blocks or ends, the next runnable
		// thread in cyclic order takes over (preemptions, within the bound, still go anywhere)
		best, bestKey := -1, 1<<30
		for _, i := range cands {
			k := (i - st.cur + len(st.threads)) % len(st.threads)
			if k == 0 {
				k = len(st.threads)
			}
			if k < bestKey {
				best, bestKey = i, k
			}
		}
		cands = []int{best}
	}
	var outs []*State
	for _, i := range cands {
		cost := 0
		if i != st.cur && curRunnable {
			cost = 1
		}
		if st.switches+cost > ex.cfg.MaxPreempt {
			continue
		}
		ns := st.clone()
		ns.cur = i
		ns.switches += cost
		ns.committed = true
		outs = append(outs, ns)
	}
	if len(outs) == 0 {
		// only preemptions beyond the bound remain: continue the current thread
		st.committed = true
		return nil
	}
	ex.rep.Schedules += len(outs) - 1
	*st = *outs[0]
	return outs[1:]
}

func (ex *Exec) mutexOp(st *State, th *Thread, f *Frame, name string, args []Value, call *ssa.Call, isDefer bool) []*State {
	if len(st.threads) == 1 && !ex.cfg.Threads {
		ex.rep.Stubs["sync.Mutex (single thread: no-op)"] = true
		ex.setResult(f, call, isDefer, nil)
		return nil
	}
	ex.rep.Stubs["sync.Mutex/RWMutex (exclusive lock model; scheduling point)"] = true
	cell, cur := ex.mutexState(st, args[0])
	switch name {
	case "Lock", "RLock":
		if cur == nil || cur.Op != OConst || cur.C != 0 {
			unsupported("Lock on a held mutex reached execution (self-deadlock)")
		}
		ex.store(st, cell, BVC(cur.S.W, 1))
	default:
		ex.store(st, cell, BVC(cur.S.W, 0))
	}
	ex.setResult(f, call, isDefer, nil)
	return nil
}

func wgKey(v Value) string {
	p, _ := v.(Ptr)
	return "wg@" + itoaInt(p.Obj) + pathKey(p.Path)
}

// waitGroupOp: sync.WaitGroup as a counter kept beside the heap (Wait blocks until it is zero).
func (ex *Exec) waitGroupOp(st *State, th *Thread, f *Frame, name string, args []Value, call *ssa.Call, isDefer bool) []*State {
	ex.rep.Stubs["sync.WaitGroup (counter model; Wait is a blocking scheduling point)"] = true
	k := wgKey(args[0])
	cur, _ := st.stub[k].(*Term)
	if cur == nil {
		cur = BVC(64, 0)
	}
	switch name {
	case "Add":
		st.stubSet(k, ex.ctx.BVAdd(cur, args[1].(*Term)))
	case "Done":
		st.stubSet(k, ex.ctx.BVSub(cur, BVC(64, 1)))
	}
	ex.setResult(f, call, isDefer, nil)
	return nil
}
