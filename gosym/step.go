package main

import (
	"fmt"
	"go/token"
	"go/types"

	"golang.org/x/tools/go/ssa"
)

func predIndex(from, to *ssa.BasicBlock, succIdx int) int {
	occ := 0
	for i := 0; i < succIdx; i++ {
		if from.Succs[i] == to {
			occ++
		}
	}
	for i, p := range to.Preds {
		if p == from {
			if occ == 0 {
				return i
			}
			occ--
		}
	}
	return -1
}

// jump transfers control along successor edge succIdx and evaluates phis.
func (ex *Exec) jump(st *State, f *Frame, succIdx int) bool {
	from := f.block
	to := from.Succs[succIdx]
	if to.Dominates(from) {
		// back edge: to is a loop header
		if f.loops == nil {
			f.loops = map[int]int{}
		}
		if f.symFlag {
			// only iterations that involved a symbolic branch count towards the unwinding bound
			f.loops[to.Index]++
			f.symFlag = false
		}
		if f.loops[to.Index] > ex.cfg.Unwind {
			if ex.pathFeasible(st) {
				ex.rep.UnwoundOut++
				ex.rep.Unknowns = append(ex.rep.Unknowns, "unwinding bound hit at "+ex.site(f))
				ex.endPath(st, "unwound-out")
			} else {
				st.ended = true
				ex.rep.Infeasible++
			}
			return false
		}
	} else if f.loops != nil {
		// entering a loop header from outside restarts its unwinding count
		if _, ok := f.loops[to.Index]; ok {
			delete(f.loops, to.Index)
		}
	}
	nphi := f.info.firstNon[to.Index]
	if nphi > 0 {
		pi := predIndex(from, to, succIdx)
		vals := make([]Value, nphi)
		for i := 0; i < nphi; i++ {
			phi := to.Instrs[i].(*ssa.Phi)
			vals[i] = ex.operand(st, f, phi.Edges[pi])
		}
		for i := 0; i < nphi; i++ {
			f.set(to.Instrs[i].(*ssa.Phi), vals[i])
		}
	}
	f.prev = nil
	f.block = to
	f.ip = nphi
	return true
}


// pushFrame enters fn with the given arguments.
func (ex *Exec) pushFrame(st *State, th *Thread, fn *ssa.Function, args []Value, free []Value, retTo ssa.Value) *Frame {
	if len(fn.Blocks) == 0 {
		unsupported("call of body-less function %v", fn)
	}
	fi := ex.p.info(fn)
	fr := &Frame{fn: fn, info: fi, block: fn.Blocks[0], ip: 0, locals: make([]Value, fi.n), retTo: retTo}
	if len(args) != len(fn.Params) {
		unsupported("arity mismatch calling %v: %d vs %d", fn, len(args), len(fn.Params))
	}
	for i, a := range args {
		fr.locals[i] = a
	}
	for i, a := range free {
		fr.locals[len(fn.Params)+i] = a
	}
	th.stack = append(th.stack, fr)
	if len(th.stack) > 400 {
		unsupported("call stack too deep")
	}
	ex.rep.Funcs[fn.String()] = true
	return fr
}

// checkNil forks a nil-dereference panic if p is nil (pointers are concrete).
func (ex *Exec) derefCheck(st *State, p Value, what string) (Ptr, bool) {
	pp, ok := p.(Ptr)
	if !ok {
		unsupported("deref of %T", p)
	}
	if pp.Obj == 0 {
		ex.doPanic(st, "nil pointer dereference ("+what+")")
		return pp, false
	}
	return pp, true
}

// checkIndex makes sure 0 <= idx < n, forking a panic state when a violation is feasible.
// Returns extra states (the panicking fork) and false if the current state itself must panic.
func (ex *Exec) checkIndex(st *State, idx *Term, n int, what string) ([]*State, bool) {
	if idx.Op == OConst {
		if idx.C >= uint64(n) {
			ex.doPanic(st, fmt.Sprintf("index out of range [%d] with length %d (%s)", int64(idx.C), n, what))
			return nil, false
		}
		return nil, true
	}
	if mx, ok := maxU(idx); ok && mx < uint64(n) {
		return nil, true
	}
	bad := ex.ctx.Not(ex.ctx.Ult(idx, BVC(idx.S.W, uint64(n))))
	// staged: the bound usually follows from the index term alone or from the most
	// recent path conditions; only the full query can establish feasibility
	ex.sol.Purpose = "bounds (staged) at " + ex.site(st.thread().top())
	if ex.boundOK == nil {
		ex.boundOK = map[int]bool{}
	}
	if ex.boundOK[bad.ID] {
		return nil, true
	}
	// proven earlier under a path condition that is a prefix of the current one?
	if pp, ok := ex.boundPC[bad.ID]; ok && len(pp) <= len(st.pc) {
		same := true
		for i := range pp {
			if pp[i] != st.pc[i] {
				same = false
				break
			}
		}
		if same {
			return nil, true
		}
	}
	if r0, _ := ex.sol.Check([]*Term{bad}, false, nil); r0 == Unsat {
		ex.boundOK[bad.ID] = true
		return nil, true
	}
	if len(st.pc) > 6 {
		sub := append(append([]*Term{}, st.pc[len(st.pc)-6:]...), bad)
		if r1, _ := ex.sol.Check(sub, false, nil); r1 == Unsat {
			return nil, true
		}
	}
	r, m := ex.feasible(st, bad)
	var extra []*State
	if r == Unsat {
		if ex.boundPC == nil {
			ex.boundPC = map[int][]*Term{}
		}
		ex.boundPC[bad.ID] = append([]*Term(nil), st.pc...)
	}
	if r != Unsat {
		if r == Unknown {
			ex.rep.Unknowns = append(ex.rep.Unknowns, "bounds check undecided at "+ex.site(st.thread().top()))
		} else {
			ps := st.clone()
			ex.addPC(ps, bad)
			ps.model = m
			ex.doPanic(ps, fmt.Sprintf("index out of range with length %d (%s)", n, what))
			extra = append(extra, ps)
		}
		// the in-range continuation must itself be feasible
		good := ex.ctx.Not(bad)
		r2, m2 := ex.feasible(st, good)
		if r2 == Unsat {
			// always out of range: current state panics, no fork needed
			if len(extra) > 0 {
				*st = *extra[0]
				return nil, false
			}
		}
		ex.addPC(st, good)
		if r2 == Sat {
			st.model = m2
		} else {
			st.model = nil
		}
	}
	return extra, true
}

func toIdx64(ctx *TermCtx, v Value, t types.Type) *Term {
	x := v.(*Term)
	return ctx.Resize(x, 64, isSigned(t))
}

func (ex *Exec) step(st *State) (extra []*State) {
	th := st.thread()
	st.steps++
	ex.rep.Steps++
	if ex.cfg.MaxSteps > 0 && st.steps > ex.cfg.MaxSteps {
		ex.rep.Unknowns = append(ex.rep.Unknowns, "step budget exhausted on a path")
		ex.endPath(st, "step-budget")
		return nil
	}
	if th.panicking != nil {
		return ex.unwind(st, th)
	}
	wasVisible := false
	if len(st.threads) > 1 {
		if th.done || ex.atVisible(st, th) {
			if !st.committed || !ex.canProceed(st, th) {
				st.committed = false
				return ex.scheduleFork(st)
			}
			wasVisible = true
		}
		defer func() {
			if wasVisible {
				st.committed = false
			}
		}()
	}
	f := th.top()
	if f.ip >= len(f.block.Instrs) {
		unsupported("fell off block in %v", f.fn)
	}
	in := f.block.Instrs[f.ip]
	switch x := in.(type) {
	case *ssa.DebugRef:
		f.ip++
	case *ssa.Alloc:
		t := x.Type().Underlying().(*types.Pointer).Elem()
		id := st.alloc(zeroValue(t))
		f.set(x, Ptr{Obj: id})
		f.ip++
	case *ssa.BinOp:
		v, ex2, ok := ex.binop(st, x.Op, ex.operand(st, f, x.X), ex.operand(st, f, x.Y), x.X.Type(), x.Y.Type())
		extra = ex2
		if ok {
			f.set(x, v)
			f.ip++
		}
	case *ssa.UnOp:
		return ex.unop(st, th, f, x)
	case *ssa.ChangeType:
		f.set(x, ex.operand(st, f, x.X))
		f.ip++
	case *ssa.ChangeInterface:
		f.set(x, ex.operand(st, f, x.X))
		f.ip++
	case *ssa.Convert:
		f.set(x, ex.convert(st, ex.operand(st, f, x.X), x.X.Type(), x.Type()))
		f.ip++
	case *ssa.MultiConvert:
		f.set(x, ex.convert(st, ex.operand(st, f, x.X), x.X.Type(), x.Type()))
		f.ip++
	case *ssa.MakeInterface:
		f.set(x, &Iface{T: x.X.Type(), V: ex.operand(st, f, x.X)})
		f.ip++
	case *ssa.Extract:
		f.set(x, ex.operand(st, f, x.Tuple).(*Agg).E[x.Index])
		f.ip++
	case *ssa.Field:
		f.set(x, ex.operand(st, f, x.X).(*Agg).E[x.Field])
		f.ip++
	case *ssa.FieldAddr:
		p, ok := ex.derefCheck(st, ex.operand(st, f, x.X), "field")
		if ok {
			f.set(x, Ptr{Obj: p.Obj, Path: extendPath(p.Path, PathElem{I: x.Field})})
			f.ip++
		}
	case *ssa.IndexAddr:
		base := ex.operand(st, f, x.X)
		idx := toIdx64(ex.ctx, ex.operand(st, f, x.Index), x.Index.Type())
		switch b := base.(type) {
		case Ptr: // *array
			if b.Obj == 0 {
				ex.doPanic(st, "nil pointer dereference (index)")
				return nil
			}
			n := int(x.X.Type().Underlying().(*types.Pointer).Elem().Underlying().(*types.Array).Len())
			var ok bool
			extra, ok = ex.checkIndex(st, idx, n, "array")
			if !ok {
				return extra
			}
			f.set(x, Ptr{Obj: b.Obj, Path: extendPath(b.Path, mkElem(idx, n))})
		case Slice:
			if idx.Op != OConst && b.Len <= 16 && !isScalarType(x.X.Type().Underlying().(*types.Slice).Elem()) {
				// symbolic index into a small slice of pointers/aggregates with references: case split
				for i, v := range f.locals {
					if vt, ok := v.(*Term); ok && vt == ex.operand(st, f, x.Index) {
						_ = i
					}
				}
				raw := ex.operand(st, f, x.Index).(*Term)
				if raw.Op != OConst {
					hi := uint64(b.Len)
					if hi > 0 {
						hi--
					}
					return ex.splitValue(st, f, raw, 0, hi, func(s *State, k uint64) {})
				}
			}
			var ok bool
			extra, ok = ex.checkIndex(st, idx, b.Len, "slice")
			if !ok {
				return extra
			}
			var e PathElem
			if idx.Op == OConst {
				e = PathElem{I: b.Off + int(idx.C)}
			} else {
				e = PathElem{Sym: ex.ctx.BVAdd(idx, BVC(64, uint64(b.Off))), N: b.Off + b.Len}
			}
			f.set(x, Ptr{Obj: b.Arr.Obj, Path: extendPath(b.Arr.Path, e)})
		default:
			unsupported("IndexAddr on %T", base)
		}
		f.ip++
	case *ssa.Index:
		base := ex.operand(st, f, x.X)
		idx := toIdx64(ex.ctx, ex.operand(st, f, x.Index), x.Index.Type())
		switch b := base.(type) {
		case *Agg:
			var ok bool
			extra, ok = ex.checkIndex(st, idx, len(b.E), "array value")
			if !ok {
				return extra
			}
			f.set(x, ex.loadPath(b, []PathElem{mkElem(idx, len(b.E))}))
		case *Str:
			v, ex2, ok := ex.strIndex(st, b, idx)
			extra = ex2
			if !ok {
				return extra
			}
			f.set(x, v)
		default:
			unsupported("Index on %T", base)
		}
		f.ip++
	case *ssa.Lookup:
		base := ex.operand(st, f, x.X)
		switch b := base.(type) {
		case *Str:
			idx := toIdx64(ex.ctx, ex.operand(st, f, x.Index), x.Index.Type())
			v, ex2, ok := ex.strIndex(st, b, idx)
			extra = ex2
			if !ok {
				return extra
			}
			f.set(x, v)
		case MapRef:
			mt := x.X.Type().Underlying().(*types.Map)
			v, ok := ex.mapLookup(st, b, ex.operand(st, f, x.Index), mt.Elem())
			if x.CommaOk {
				f.set(x, &Agg{E: []Value{v, ok}})
			} else {
				f.set(x, v)
			}
		default:
			unsupported("Lookup on %T", base)
		}
		f.ip++
	case *ssa.MakeMap:
		f.set(x, MapRef{Obj: st.alloc(&MapObj{})})
		f.ip++
	case *ssa.MapUpdate:
		m := ex.operand(st, f, x.Map).(MapRef)
		if m.Obj == 0 {
			ex.doPanic(st, "assignment to entry in nil map")
			return nil
		}
		ex.mapUpdate(st, m, ex.operand(st, f, x.Key), ex.operand(st, f, x.Value))
		f.ip++
	case *ssa.MakeSlice:
		ln, ok1 := ex.operand(st, f, x.Len).(*Term)
		cp, ok2 := ex.operand(st, f, x.Cap).(*Term)
		if !ok1 || !ok2 {
			unsupported("MakeSlice operands")
		}
		if ln.Op != OConst {
			// case split on the length
			return ex.splitValue(st, f, ln, 0, 70, func(s *State, k uint64) {})
		}
		if cp.Op != OConst {
			return ex.splitValue(st, f, cp, 0, 70, func(s *State, k uint64) {})
		}
		et := x.Type().Underlying().(*types.Slice).Elem()
		n, c := int(int64(ln.C)), int(int64(cp.C))
		if n < 0 || c < n || c > 1<<22 {
			ex.doPanic(st, "makeslice: len out of range")
			return nil
		}
		arr := &Agg{E: make([]Value, c)}
		if c > 0 {
			z := zeroValue(et)
			for i := range arr.E {
				arr.E[i] = z
			}
		}
		f.set(x, Slice{Arr: Ptr{Obj: st.alloc(arr)}, Len: n, Cap: c})
		f.ip++
	case *ssa.MakeClosure:
		fn := x.Fn.(*ssa.Function)
		free := make([]Value, len(x.Bindings))
		for i, b := range x.Bindings {
			free[i] = ex.operand(st, f, b)
		}
		f.set(x, &Closure{Fn: fn, Free: free})
		f.ip++
	case *ssa.MakeChan:
		sz := ex.operand(st, f, x.Size).(*Term)
		if sz.Op != OConst {
			unsupported("symbolic channel size")
		}
		f.set(x, ChanRef{Obj: st.alloc(&ChanObj{Cap: int(sz.C)})})
		f.ip++
	case *ssa.Slice:
		return ex.sliceOp(st, f, x)
	case *ssa.SliceToArrayPointer:
		s := ex.operand(st, f, x.X).(Slice)
		n := int(x.Type().Underlying().(*types.Pointer).Elem().Underlying().(*types.Array).Len())
		if s.Len < n {
			ex.doPanic(st, "slice to array pointer: length too short")
			return nil
		}
		if s.Off != 0 {
			unsupported("SliceToArrayPointer with offset")
		}
		f.set(x, s.Arr)
		f.ip++
	case *ssa.Store:
		p, ok := ex.derefCheck(st, ex.operand(st, f, x.Addr), "store")
		if ok {
			ex.store(st, p, ex.operand(st, f, x.Val))
			f.ip++
		}
	case *ssa.TypeAssert:
		return ex.typeAssert(st, f, x)
	case *ssa.Range:
		f.set(x, ex.makeIter(st, ex.operand(st, f, x.X)))
		f.ip++
	case *ssa.Next:
		it := ex.operand(st, f, x.Iter).(*MapIter)
		if !it.IsStr && it.Pos < len(it.Keys) && it.Pres[it.Pos].Op != OConst {
			// entry whose presence is symbolic: fork (visit it / skip it)
			pres := it.Pres[it.Pos]
			rY, mY := ex.feasible(st, pres)
			rN, mN := ex.feasible(st, ex.ctx.Not(pres))
			skip := *it
			skip.Pos++
			if rY == Unsat {
				f.set(x.Iter, &skip)
				return nil // re-execute Next on the following entry
			}
			if rN != Unsat {
				ns := st.clone()
				ex.addPC(ns, ex.ctx.Not(pres))
				ns.model = mN
				nf := ns.thread().top()
				nf.set(x.Iter, &skip)
				extra = append(extra, ns)
				ex.rep.Forks++
			}
			ex.addPC(st, pres)
			st.model = mY
		}
		f.set(x, ex.iterNext(st, f, x, it))
		f.ip++
	case *ssa.Jump:
		ex.jump(st, f, 0)
	case *ssa.If:
		return ex.doIf(st, th, f, x)
	case *ssa.Return:
		var res Value
		switch len(x.Results) {
		case 0:
		case 1:
			res = ex.operand(st, f, x.Results[0])
		default:
			t := &Agg{E: make([]Value, len(x.Results))}
			for i, r := range x.Results {
				t.E[i] = ex.operand(st, f, r)
			}
			res = t
		}
		ex.popFrame(st, th, res)
	case *ssa.RunDefers:
		if n := len(f.defers); n > 0 {
			d := f.defers[n-1]
			f.defers = f.defers[:n-1]
			return ex.invoke(st, th, f, d.fn, d.args, nil, true)
		}
		f.ip++
	case *ssa.Defer:
		fnv, args := ex.prepareCall(st, f, &x.Call)
		f.defers = append(f.defers, deferred{fn: fnv, args: args})
		f.ip++
	case *ssa.Panic:
		v := ex.operand(st, f, x.X)
		msg := "panic"
		if iv, ok := v.(*Iface); ok && iv != nil {
			if s, ok := iv.V.(*Str); ok && !s.Sym {
				msg = "panic: " + s.S
			} else {
				msg = "panic: " + fmtValue(iv.V)
			}
		}
		th.panicking = &PanicInfo{Msg: msg + " at " + ex.site(f), Val: v}
	case *ssa.Call:
		fnv, args := ex.prepareCall(st, f, &x.Call)
		return ex.invoke(st, th, f, fnv, args, x, false)
	case *ssa.Go:
		fnv, args := ex.prepareCall(st, f, &x.Call)
		ex.spawn(st, fnv, args)
		f.ip++
	case *ssa.Send:
		return ex.chanSend(st, th, f, x)
	case *ssa.Select:
		return ex.selectOp(st, th, f, x)
	default:
		unsupported("instruction %T (%v)", in, in)
	}
	return extra
}

func mkElem(idx *Term, n int) PathElem {
	if idx.Op == OConst {
		return PathElem{I: int(idx.C)}
	}
	return PathElem{Sym: idx, N: n}
}

// splitValue forks the state on the concrete values of t in [lo,hi]; the
// current instruction is re-executed in each fork with t constrained (the
// caller is expected to find a constant through re-evaluation - so instead we
// substitute by adding t==k to the pc and patching the operand slot).
func (ex *Exec) splitValue(st *State, f *Frame, t *Term, lo, hi uint64, then func(*State, uint64)) []*State {
	var outs []*State
	slot := -1
	for i, v := range f.locals {
		if vt, ok := v.(*Term); ok && vt == t {
			slot = i
			break
		}
	}
	if slot < 0 {
		unsupported("splitValue: operand not in a local slot")
	}
	depth := len(st.thread().stack) - 1
	for k := lo; k <= hi; k++ {
		c := ex.ctx.Eq(t, BVC(t.S.W, k))
		r, m := ex.feasible(st, c)
		if r == Unsat {
			continue
		}
		if r == Unknown {
			ex.rep.Unknowns = append(ex.rep.Unknowns, "split undecided at "+ex.site(f))
		}
		ns := st.clone()
		ex.addPC(ns, c)
		ns.model = m
		nf := ns.thread().stack[depth]
		for i, v := range nf.locals {
			if vt, ok := v.(*Term); ok && vt == t {
				nf.locals[i] = BVC(t.S.W, k)
			}
		}
		then(ns, k)
		outs = append(outs, ns)
	}
	// values above hi?
	above := ex.ctx.Not(ex.ctx.Ule(t, BVC(t.S.W, hi)))
	if r, _ := ex.feasible(st, above); r != Unsat {
		ex.rep.Unknowns = append(ex.rep.Unknowns, fmt.Sprintf("value split range [%d,%d] not exhaustive at %s", lo, hi, ex.site(f)))
	}
	ex.rep.Forks += len(outs)
	if len(outs) == 0 {
		ex.endPath(st, "infeasible")
		return nil
	}
	*st = *outs[0]
	return outs[1:]
}

func (ex *Exec) doIf(st *State, th *Thread, f *Frame, x *ssa.If) []*State {
	cond := ex.operand(st, f, x.Cond).(*Term)
	if cond.Op == OConst {
		if cond.C != 0 {
			ex.jump(st, f, 0)
		} else {
			ex.jump(st, f, 1)
		}
		return nil
	}
	f.symFlag = true
	ncond := ex.ctx.Not(cond)
	var rT, rF Res
	var mT, mF Model
	siteKey := [2]interface{}{f.fn, f.block.Index}
	lazy := ex.cfg.LazyIf && ex.lazyFail[siteKey] < 3 && !ex.isEagerFn(f.fn) && ex.cfg.MergeIfs && len(st.threads) == 1 && (f.info.ipdom[f.block.Index] >= 0 || ex.depth > 0) && !(f.info.loopExit[f.block.Index] && f.loops[f.block.Index] >= 66) && !ex.isNoMerge(f.fn)
	if lazy {
		// both arms are explored and merged at the join; infeasible arms only
		// contribute dead ite branches (assertions/panics re-check the pc)
		rT, rF = Sat, Sat
		if ok, have := ex.modelHolds(st, cond); have {
			if ok {
				mT = st.model
			} else {
				mF = st.model
			}
		}
		ex.rep.LazyForks++
	} else {
		rT, mT = ex.feasible(st, cond)
		rF, mF = ex.feasible(st, ncond)
	}
	if rT == Unknown || rF == Unknown {
		ex.rep.Unknowns = append(ex.rep.Unknowns, "branch feasibility undecided at "+ex.site(f))
	}
	if rT == Unsat && rF == Unsat {
		ex.endPath(st, "infeasible")
		return nil
	}
	if rF == Unsat {
		if rT == Unknown {
			ex.addPC(st, cond)
			st.model = nil
		}
		ex.jump(st, f, 0)
		return nil
	}
	if rT == Unsat {
		if rF == Unknown {
			ex.addPC(st, ncond)
			st.model = nil
		}
		ex.jump(st, f, 1)
		return nil
	}
	ex.rep.Forks++
	depth := len(th.stack)
	blockIdx := f.block.Index
	fi := f.info
	sf := st.clone()
	ex.addPC(st, cond)
	st.model = mT
	okT := ex.jump(st, f, 0)
	ex.addPC(sf, ncond)
	sf.model = mF
	okF := ex.jump(sf, sf.thread().top(), 1)
	var init []*State
	if okF {
		init = append(init, sf)
	}
	if okT {
		init = append(init, st.cloneShallow())
	}
	if !okT && !okF {
		return nil
	}
	target := fi.ipdom[blockIdx]
	if ex.cfg.MergeIfs && len(st.threads) == 1 && target >= 0 && !ex.isNoMerge(f.fn) {
		tb := target
		first := fi.firstNon[tb]
		stop := func(s *State) bool {
			t := s.thread()
			if t.panicking != nil {
				return false
			}
			if len(t.stack) < depth {
				return true
			}
			if len(t.stack) == depth {
				top := t.top()
				return top.block.Index == tb && top.ip == first
			}
			return false
		}
		ex.depth++
		res := ex.explore(init, stop)
		ex.depth--
		merged := ex.mergeStates(res)
		if len(merged) == 0 {
			st.ended = true
			return nil
		}
		if lazy && len(merged) > 1 {
			// the arms did not merge: decide this branch with the solver from now on
			if ex.lazyFail == nil {
				ex.lazyFail = map[[2]interface{}]int{}
			}
			ex.lazyFail[siteKey]++
		}
		*st = *merged[0]
		return merged[1:]
	}
	// no merging: continue with the true arm in place
	if okT {
		*st = *init[len(init)-1]
		if okF {
			return []*State{sf}
		}
		return nil
	}
	*st = *sf
	return nil
}

// cloneShallow returns a new State struct sharing nothing mutable that step
// mutates in place beyond what the caller has finished with.
func (s *State) cloneShallow() *State {
	ns := *s
	return &ns
}

func (ex *Exec) popFrame(st *State, th *Thread, res Value) {
	f := th.top()
	th.stack = th.stack[:len(th.stack)-1]
	if len(th.stack) == 0 {
		th.done = true
		ex.threadExit(st, th)
		return
	}
	caller := th.top()
	if f.isDeferCall {
		// caller re-executes its RunDefers (ip unchanged) or continues unwinding
		return
	}
	if f.retTo != nil {
		caller.set(f.retTo, res)
	}
	caller.ip++
}

// unwind: an uncaught panic ends the path as a violation candidate. Deferred
// calls are not run during unwinding and recover() is not supported (the code
// under test never recovers); both are stated in the evidence.
func (ex *Exec) unwind(st *State, th *Thread) []*State {
	ex.uncaughtPanic(st, th)
	return nil
}

func (st *State) stubSet(k string, v Value) {
	if st.stub == nil {
		st.stub = map[string]Value{}
	}
	st.stub[k] = v
}

func (ex *Exec) uncaughtPanic(st *State, th *Thread) {
	msg := th.panicking.Msg
	m := st.model
	if m == nil {
		r, mm := ex.sol.Check(st.pc, true, nil)
		if r == Unsat {
			ex.endPath(st, "infeasible")
			return
		}
		if r == Unknown {
			ex.rep.Unknowns = append(ex.rep.Unknowns, "panic path feasibility undecided: "+msg)
			ex.endPath(st, "panic?")
			return
		}
		m = mm
	}
	ex.rep.Asserts++
	ex.recordViolation(st, "panic", msg, msg, m)
	ex.endPath(st, "panic")
}

func (ex *Exec) threadExit(st *State, th *Thread) {
	if th.id == 0 {
		// harness entry returned: path complete (as in Go, the program ends with main)
		ex.endPath(st, "done")
		return
	}
	st.committed = false // next step schedules another thread
}

var _ = token.NoPos

func isScalarType(t types.Type) bool {
	switch u := t.Underlying().(type) {
	case *types.Basic:
		return u.Info()&types.IsString == 0 && u.Kind() != types.UnsafePointer
	case *types.Struct:
		for i := 0; i < u.NumFields(); i++ {
			if !isScalarType(u.Field(i).Type()) {
				return false
			}
		}
		return true
	case *types.Array:
		return isScalarType(u.Elem())
	}
	return false
}
