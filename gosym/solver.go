package main

// One live SMT solver process per worker. Term definitions are emitted once
// per process as zero-ary define-funs at assertion level 0; each query is
// (push)(assert ...)(check-sat)[(get-value ...)](pop).

import (
	"bufio"
	"fmt"
	"io"
	"math"
	"os"
	"os/exec"
	"strconv"
	"strings"
	"time"
)

type Res int

const (
	Unsat Res = iota
	Sat
	Unknown
)

func (r Res) String() string { return [...]string{"unsat", "sat", "unknown"}[r] }

type SolverStats struct {
	Queries, Sat, Unsat, Unknown int
	Errors                       int
	Retries                      int // queries repeated in a fresh solver process after a watchdog kill
	Dur                          time.Duration
	MaxQuery                     time.Duration
	Restarts                     int
}

func (a *SolverStats) Add(b SolverStats) {
	a.Queries += b.Queries
	a.Sat += b.Sat
	a.Unsat += b.Unsat
	a.Unknown += b.Unknown
	a.Errors += b.Errors
	a.Dur += b.Dur
	if b.MaxQuery > a.MaxQuery {
		a.MaxQuery = b.MaxQuery
	}
	a.Restarts += b.Restarts
}

type Solver struct {
	Bin       string
	Args      []string
	TimeoutMs int
	cmd       *exec.Cmd
	in        io.WriteCloser
	out       *bufio.Reader
	defined   map[int]bool
	ndefs     int
	Stats     SolverStats
	log       *os.File
	buf       strings.Builder
	LastErr   string
	Purpose   string
}

var debugQ = os.Getenv("GOSYM_DEBUG_Q") != ""

func solverCmd(kind string) (string, []string) {
	switch kind {
	case "z3-old", "z3":
		return "z3", []string{"-in"}
	case "cvc5":
		return "cvc5", []string{"--incremental", "--produce-models", "--lang=smt2", "--fp-exp"}
	default: // z3 5.1.0: decides in ~1 s the BV problems on which 4.8.12 times out
		return "z3-new", []string{"-in"}
	}
}

func NewSolver(kind string, timeoutMs int, logPath string) *Solver {
	b, a := solverCmd(kind)
	s := &Solver{Bin: b, Args: a, TimeoutMs: timeoutMs}
	if logPath != "" {
		s.log, _ = os.Create(logPath)
	}
	return s
}

func (s *Solver) start() {
	s.cmd = exec.Command(s.Bin, s.Args...)
	var err error
	s.in, err = s.cmd.StdinPipe()
	if err != nil {
		panic(err)
	}
	op, err := s.cmd.StdoutPipe()
	if err != nil {
		panic(err)
	}
	s.cmd.Stderr = s.cmd.Stdout
	s.out = bufio.NewReaderSize(op, 1<<20)
	if err := s.cmd.Start(); err != nil {
		panic(fmt.Sprintf("cannot start solver %s: %v", s.Bin, err))
	}
	s.defined = map[int]bool{}
	s.ndefs = 0
	if s.Bin == "cvc5" {
		s.send("(set-logic ALL)\n")
	}
	s.send("(set-option :produce-models true)\n")
	if s.Bin == "z3" {
		s.send(fmt.Sprintf("(set-option :timeout %d)\n", s.TimeoutMs))
	} else if s.Bin == "z3-new" {
		// no solver-side timer for z3 5.1.0 (its timer thread can live-lock); the watchdog decides
	} else {
		s.send(fmt.Sprintf("(set-option :tlimit-per %d)\n", s.TimeoutMs))
	}
}

func (s *Solver) Close() {
	if s.cmd != nil {
		s.in.Close()
		done := make(chan struct{})
		go func() { s.cmd.Wait(); close(done) }()
		select {
		case <-done:
		case <-time.After(500 * time.Millisecond):
			s.cmd.Process.Kill()
			<-done
		}
		s.cmd = nil
	}
}

func (s *Solver) restart() {
	s.Close()
	s.Stats.Restarts++
	s.start()
}

func (s *Solver) send(str string) {
	if s.log != nil {
		s.log.WriteString(str)
	}
	io.WriteString(s.in, str)
}

// define emits definitions for all sub-terms of t not yet known to the process.
func (s *Solver) define(t *Term) {
	if t.Op == OConst || s.defined[t.ID] {
		return
	}
	// iterative post-order to avoid deep recursion
	type fr struct {
		t *Term
		i int
	}
	stack := []fr{{t, 0}}
	for len(stack) > 0 {
		f := &stack[len(stack)-1]
		if f.i < len(f.t.Args) {
			a := f.t.Args[f.i]
			f.i++
			if a.Op != OConst && !s.defined[a.ID] {
				stack = append(stack, fr{a, 0})
			}
			continue
		}
		tt := f.t
		stack = stack[:len(stack)-1]
		if s.defined[tt.ID] {
			continue
		}
		s.defined[tt.ID] = true
		s.ndefs++
		switch tt.Op {
		case OVar:
			fmt.Fprintf(&s.buf, "(declare-const %s %s)\n", smtVarName(tt.Name), tt.S.SMT())
		case OTable:
			fmt.Fprintf(&s.buf, "(declare-const %s %s)\n", smtVarName(tt.Name), tt.S.SMT())
			for i, v := range tt.Tab.Data {
				fmt.Fprintf(&s.buf, "(assert (= (select %s %s) %s))\n", smtVarName(tt.Name), constSMT(BVC(tt.S.W, uint64(i))), constSMT(BVC(tt.S.EW, v)))
			}
		default:
			fmt.Fprintf(&s.buf, "(define-fun t%d () %s %s)\n", tt.ID, tt.S.SMT(), bodySMT(tt))
		}
	}
}

func (s *Solver) readLine() (string, error) {
	l, err := s.out.ReadString('\n')
	return strings.TrimSpace(l), err
}

// readSexp reads one balanced s-expression (possibly multi-line).
func (s *Solver) readSexp() (string, error) {
	var sb strings.Builder
	depth := 0
	started := false
	inBar := false
	for {
		b, err := s.out.ReadByte()
		if err != nil {
			return sb.String(), err
		}
		sb.WriteByte(b)
		if b == '|' {
			inBar = !inBar
		}
		if inBar {
			continue
		}
		if b == '(' {
			depth++
			started = true
		} else if b == ')' {
			depth--
			if started && depth == 0 {
				return sb.String(), nil
			}
		} else if !started && b == '\n' && strings.TrimSpace(sb.String()) != "" {
			return sb.String(), nil
		}
	}
}

// Check decides the conjunction of the assertions. If wantModel is non-nil and the
// answer is sat, the model restricted to the variables occurring in assertions and
// wantModel is returned.
func (s *Solver) Check(assertions []*Term, wantModel bool, extraVars []*Term) (Res, Model) {
	full := s.TimeoutMs
	if first := full / 3; first >= 10000 && s.cmd != nil {
		s.TimeoutMs = first // a live session gets a third of the budget, the fresh retry all of it
	}
	r, m := s.check1(assertions, wantModel, extraVars)
	s.TimeoutMs = full
	if r == Unknown && s.cmd == nil {
		// the watchdog killed the solver. A long-lived incremental session was observed to stall on
		// goals a fresh process decides in seconds: ask once more in a fresh process, which receives
		// only the definitions this query needs. Still unknown after that = undecided.
		s.Stats.Retries++
		r, m = s.check1(assertions, wantModel, extraVars)
	}
	return r, m
}

func (s *Solver) check1(assertions []*Term, wantModel bool, extraVars []*Term) (Res, Model) {
	for _, a := range assertions {
		if a.Op == OConst && a.C == 0 {
			return Unsat, nil
		}
	}
	if s.cmd == nil {
		s.start()
	}
	if s.ndefs > 400000 {
		s.restart()
	}
	t0 := time.Now()
	s.buf.Reset()
	for _, a := range assertions {
		s.define(a)
	}
	var vars []*Term
	if wantModel {
		vars = CollectVars(append(append([]*Term{}, assertions...), extraVars...))
		for _, v := range vars {
			s.define(v)
		}
	}
	s.buf.WriteString("(push 1)\n")
	for _, a := range assertions {
		if a.Op == OConst {
			continue
		}
		fmt.Fprintf(&s.buf, "(assert %s)\n", refSMT(a))
	}
	if s.Bin == "cvc5" {
		s.buf.WriteString("(check-sat)\n")
	} else {
		// run the full preprocessing/bit-blasting pipeline on the current goal: the
		// plain incremental core is orders of magnitude slower on these BV problems
		// (no try-for: z3 5.1.0's timer thread can live-lock on trivial goals; the watchdog
		// below enforces the time limit by killing and restarting the solver)
		s.buf.WriteString("(check-sat-using default)\n")
	}
	// the watchdog covers sending as well: a solver that is slow to read (huge terms)
	// blocks the write
	proc := s.cmd.Process
	wd := time.AfterFunc(time.Duration(s.TimeoutMs)*time.Millisecond, func() { proc.Kill() })
	defer wd.Stop()
	s.send(s.buf.String())
	res := Unknown
	s.LastErr = ""
	for {
		l, err := s.readLine()
		if err != nil {
			s.LastErr = "solver died or was killed by the watchdog: " + err.Error()
			fmt.Fprintf(os.Stderr, "  query #%d: solver killed after %.1fs, %d assertions, %d term nodes [%s]\n", s.Stats.Queries+1, time.Since(t0).Seconds(), len(assertions), TermSize(assertions...), s.Purpose)
			s.Stats.Errors++
			s.cmd.Wait()
			s.cmd = nil
			s.Stats.Dur += time.Since(t0)
			s.Stats.Queries++
			s.Stats.Unknown++
			return Unknown, nil
		}
		if l == "" {
			continue
		}
		if strings.HasPrefix(l, "(error") {
			s.LastErr = l
			s.Stats.Errors++
			continue
		}
		if l == "sat" {
			res = Sat
		} else if l == "unsat" {
			res = Unsat
		} else if l == "unknown" || l == "timeout" {
			res = Unknown
		} else {
			s.LastErr = "unexpected solver output: " + l
			s.Stats.Errors++
			continue
		}
		break
	}
	if s.LastErr != "" {
		// any error line makes the answer inconclusive
		fmt.Fprintf(os.Stderr, "solver error: %s\n", s.LastErr)
		res = Unknown
	}
	var model Model
	if res == Sat && wantModel {
		model = Model{}
		if len(vars) > 0 {
			var sb strings.Builder
			sb.WriteString("(get-value (")
			for _, v := range vars {
				sb.WriteString(smtVarName(v.Name))
				sb.WriteString(" ")
			}
			sb.WriteString("))\n")
			s.send(sb.String())
			txt, err := s.readSexp()
			if err != nil || strings.Contains(txt, "(error") {
				s.LastErr = "get-value failed: " + txt
				res = Unknown
			} else {
				parseModel(txt, vars, model)
			}
		}
	}
	s.send("(pop 1)\n")
	d := time.Since(t0)
	if debugQ || d > 20*time.Second {
		fmt.Fprintf(os.Stderr, "  query #%d: %v in %.2fs, %d assertions, %d term nodes [%s]\n", s.Stats.Queries+1, res, d.Seconds(), len(assertions), TermSize(assertions...), s.Purpose)
	}
	s.Stats.Queries++
	s.Stats.Dur += d
	if d > s.Stats.MaxQuery {
		s.Stats.MaxQuery = d
	}
	switch res {
	case Sat:
		s.Stats.Sat++
	case Unsat:
		s.Stats.Unsat++
	default:
		s.Stats.Unknown++
	}
	return res, model
}

// ---- s-expression model parsing ----

type sexp struct {
	atom string
	list []*sexp
}

func parseSexp(s string, i int) (*sexp, int) {
	for i < len(s) && (s[i] == ' ' || s[i] == '\n' || s[i] == '\t' || s[i] == '\r') {
		i++
	}
	if i >= len(s) {
		return nil, i
	}
	if s[i] == '(' {
		n := &sexp{}
		i++
		for {
			for i < len(s) && (s[i] == ' ' || s[i] == '\n' || s[i] == '\t' || s[i] == '\r') {
				i++
			}
			if i >= len(s) {
				return n, i
			}
			if s[i] == ')' {
				return n, i + 1
			}
			var c *sexp
			c, i = parseSexp(s, i)
			if c == nil {
				return n, i
			}
			n.list = append(n.list, c)
		}
	}
	if s[i] == '|' {
		j := strings.IndexByte(s[i+1:], '|')
		return &sexp{atom: s[i+1 : i+1+j]}, i + j + 2
	}
	j := i
	for j < len(s) && s[j] != ' ' && s[j] != ')' && s[j] != '(' && s[j] != '\n' {
		j++
	}
	return &sexp{atom: s[i:j]}, j
}

func bvAtom(a string) (uint64, int, bool) {
	if strings.HasPrefix(a, "#x") {
		v, err := strconv.ParseUint(a[2:], 16, 64)
		return v, 4 * (len(a) - 2), err == nil
	}
	if strings.HasPrefix(a, "#b") {
		v, err := strconv.ParseUint(a[2:], 2, 64)
		return v, len(a) - 2, err == nil
	}
	return 0, 0, false
}

func sexpValue(e *sexp, srt Sort) (uint64, bool) {
	if e.list == nil {
		switch e.atom {
		case "true":
			return 1, true
		case "false":
			return 0, true
		}
		v, _, ok := bvAtom(e.atom)
		return v, ok
	}
	l := e.list
	if len(l) == 0 {
		return 0, false
	}
	if l[0].atom == "_" && len(l) >= 3 {
		if strings.HasPrefix(l[1].atom, "bv") {
			v, err := strconv.ParseUint(l[1].atom[2:], 10, 64)
			return v, err == nil
		}
		var f float64
		switch l[1].atom {
		case "+zero":
			f = 0
		case "-zero":
			f = math.Copysign(0, -1)
		case "+oo":
			f = math.Inf(1)
		case "-oo":
			f = math.Inf(-1)
		case "NaN":
			f = math.NaN()
		default:
			return 0, false
		}
		if srt.K == SFP32 {
			return uint64(math.Float32bits(float32(f))), true
		}
		return math.Float64bits(f), true
	}
	if l[0].atom == "fp" && len(l) == 4 {
		sg, _, ok1 := bvAtom(l[1].atom)
		ex, ew, ok2 := bvAtom(l[2].atom)
		mt, mw, ok3 := bvAtom(l[3].atom)
		if !ok1 || !ok2 || !ok3 {
			return 0, false
		}
		return sg<<uint(ew+mw) | ex<<uint(mw) | mt, true
	}
	return 0, false
}

func parseModel(txt string, vars []*Term, m Model) {
	e, _ := parseSexp(txt, 0)
	if e == nil {
		return
	}
	byName := map[string]*Term{}
	for _, v := range vars {
		byName[v.Name] = v
	}
	for _, p := range e.list {
		if len(p.list) != 2 {
			continue
		}
		name := p.list[0].atom
		v, ok := byName[name]
		if !ok {
			continue
		}
		if val, ok := sexpValue(p.list[1], v.S); ok {
			m[name] = val
		}
	}
}
