package main

import (
	"encoding/json"
	"fmt"
	"os"
	"path/filepath"
	"sort"
	"strings"
	"time"
)

func loadKnown() []KnownFinding {
	b, err := os.ReadFile(filepath.Join(verifDir, "known_findings.json"))
	if err != nil {
		return nil
	}
	var k []KnownFinding
	json.Unmarshal(b, &k)
	return k
}

func finish(spec *Spec, tier string, seed int, obs []*Obligation, results map[string]*ObResult, t0 time.Time, evPath string, noReplay bool, prog *Program, verbose bool) int {
	var cases []*ReplayCase
	n := 0
	for _, o := range obs {
		r := results[o.Name]
		perMsg := map[string]int{}
		for _, v := range r.rep.Violations {
			perMsg[v.Msg]++
			if perMsg[v.Msg] > 2 {
				continue
			}
			n++
			rc := &ReplayCase{ID: fmt.Sprintf("c%d", n), Prop: spec.Property, Ob: o.Name, Pkg: o.Pkg, Entry: o.Entry, Kind: v.Kind, Msg: v.Msg, Site: v.Site, Vals: v.Nondets, Notes: v.Notes, Quick: tier != "thorough", Seed: uint64(seed), Repl: o.Replace}
			if o.Threads && v.Kind == "deadlock" {
				rc.Repeat = 5000 // a reproduced deadlock blocks the replay until the test times out
			}
			if o.Threads && v.Kind != "race" && v.Kind != "deadlock" {
				rc.Repeat = 30000 // the interleaving cannot be forced natively: stress it
			}
			cases = append(cases, rc)
		}
		for i, w := range r.rep.Witnesses {
			if i >= 2 {
				break
			}
			n++
			cases = append(cases, &ReplayCase{ID: fmt.Sprintf("c%d", n), Prop: spec.Property, Ob: o.Name, Pkg: o.Pkg, Entry: o.Entry, Kind: "witness", Msg: "completed path", Vals: w, Quick: tier != "thorough", Seed: uint64(seed), Repl: o.Replace})
		}
	}
	if !noReplay && len(cases) > 0 {
		if err := runReplays(cases, verbose); err != nil {
			fmt.Println("INCONCLUSIVE replay infrastructure failed:", err)
			return 2
		}
	}
	known := loadKnown()
	isKnown := func(c *ReplayCase) *KnownFinding {
		for i := range known {
			k := &known[i]
			if k.Status == "known" && k.Property == c.Prop && k.Msg == c.Msg && (k.Obligation == "" || k.Obligation == c.Ob) {
				return k
			}
		}
		return nil
	}
	exit := 0
	validated := 0
	var lines []string
	var notes []string
	knownPrinted := map[string]bool{}
	violCount := 0
	twinViolated := map[string]bool{}
	repDir := filepath.Join(verifDir, "work", "replays", spec.Property)
	for _, c := range cases {
		ob := results[c.Ob].ob
		if c.Kind == "witness" {
			if noReplay {
				continue
			}
			if replayConfirms(c) {
				validated++
			} else {
				notes = append(notes, fmt.Sprintf("witness path of %s did not replay natively (%s): encoding suspect", c.Ob, c.Result))
			}
			continue
		}
		confirmed := noReplay || replayConfirms(c)
		if ob.Twin {
			if confirmed {
				twinViolated[c.Ob] = true
				validated++
			}
			continue
		}
		if !confirmed {
			notes = append(notes, fmt.Sprintf("UNCONFIRMED model for %s %q: native result %q (not reported as a violation)", c.Ob, c.Msg, c.Result))
			fmt.Printf("UNCONFIRMED property=%s obligation=%s msg=%q native=%q\n", c.Prop, c.Ob, c.Msg, c.Result)
			continue
		}
		validated++
		if k := isKnown(c); k != nil {
			key := k.Obligation + "|" + k.Msg
			if !knownPrinted[key] {
				knownPrinted[key] = true
				lines = append(lines, fmt.Sprintf("KNOWN-FINDING: property=%s %s", c.Prop, k.What))
			}
			continue
		}
		violCount++
		os.MkdirAll(repDir, 0755)
		path := filepath.Join(repDir, fmt.Sprintf("%s_%s_%s.json", c.Ob, c.ID, tier))
		jb, _ := json.MarshalIndent(c, "", " ")
		os.WriteFile(path, jb, 0644)
		lines = append(lines, fmt.Sprintf("VIOLATION property=%s replay=%s", c.Prop, path))
		fmt.Printf("  violated: obligation=%s kind=%s msg=%q site=%s native=%q\n", c.Ob, c.Kind, c.Msg, c.Site, c.Result)
		exit = 1
	}
	inconclusive := false
	for _, o := range obs {
		r := results[o.Name]
		if o.Twin {
			if !twinViolated[o.Name] {
				notes = append(notes, "vacuity twin "+o.Name+" was NOT violated: harness does not reach its assertion")
				inconclusive = true
			}
			continue
		}
		if r.rep.Proven == 0 && r.rep.Trivial == 0 && len(r.rep.Violations) == 0 {
			notes = append(notes, "obligation "+o.Name+" decided no assertion at all")
			inconclusive = true
		}
		if len(r.rep.Reached) == 0 {
			notes = append(notes, "obligation "+o.Name+" reached no verifReach point (vacuous)")
			inconclusive = true
		}
		if len(r.rep.Unsupported) > 0 {
			notes = append(notes, fmt.Sprintf("obligation %s: %d paths ended on unsupported constructs, e.g. %s", o.Name, len(r.rep.Unsupported), r.rep.Unsupported[0]))
		}
		if len(r.rep.Unknowns) > 0 {
			notes = append(notes, fmt.Sprintf("obligation %s: %d inconclusive items (not counted as held), e.g. %s", o.Name, len(r.rep.Unknowns), r.rep.Unknowns[0]))
		}
	}
	for _, l := range lines {
		fmt.Println(l)
	}
	writeEvidence(spec, tier, seed, obs, results, time.Since(t0), evPath, notes, validated)
	// summary
	for _, o := range obs {
		r := results[o.Name]
		fmt.Printf("obligation %-28s paths=%-6d asserts=%-5d proven=%-5d violations=%-3d unknown=%-3d unsupported=%-3d queries=%-6d solver=%.1fs wall=%.1fs\n", o.Name, r.rep.Paths, r.rep.Asserts, r.rep.Proven, len(r.rep.Violations), len(r.rep.Unknowns), len(r.rep.Unsupported), r.stats.Queries, r.stats.Dur.Seconds(), r.wall.Seconds())
	}
	for _, nn := range notes {
		fmt.Println("note:", nn)
	}
	if exit == 0 && inconclusive {
		fmt.Println("INCONCLUSIVE", strings.Join(notes, "; "))
		return 2
	}
	if exit == 0 {
		und := 0
		for _, o := range obs {
			und += len(results[o.Name].rep.Unknowns) + len(results[o.Name].rep.Unsupported)
		}
		if und > 0 {
			fmt.Printf("OK property=%s tier=%s (held on everything decided; %d items undecided and not counted as held, listed in the evidence; %d native replays matched)\n", spec.Property, tier, und, validated)
		} else {
			fmt.Printf("OK property=%s tier=%s (held on everything explored; %d native replays matched)\n", spec.Property, tier, validated)
		}
	}
	return exit
}

func writeEvidence(spec *Spec, tier string, seed int, obs []*Obligation, results map[string]*ObResult, wall time.Duration, path string, notes []string, validated int) {
	if path == "" {
		path = filepath.Join(verifDir, "evidence", spec.Property+".json")
	}
	os.MkdirAll(filepath.Dir(path), 0755)
	states, trans, viol := 0, 0, 0
	var samples []interface{}
	funcs := map[string]bool{}
	stubs := map[string]bool{}
	var perOb []map[string]interface{}
	discharged := 0
	var solverS float64
	proven, asserts := 0, 0
	for _, o := range obs {
		r := results[o.Name]
		states += r.rep.Paths
		trans += r.stats.Queries
		if !o.Twin {
			viol += len(r.rep.Violations)
		}
		proven += r.rep.Proven
		asserts += r.rep.Asserts
		for _, s := range r.rep.Samples {
			if len(samples) < 12 {
				samples = append(samples, o.Name+": "+s)
			}
		}
		for f := range r.rep.Funcs {
			if strings.Contains(f, modPath) && !strings.Contains(f, "Harness_") {
				funcs[strings.ReplaceAll(f, modPath+"/", "")] = true
			}
		}
		for s := range r.rep.Stubs {
			stubs[s] = true
		}
		solverS += r.stats.Dur.Seconds()
		reached := []string{}
		for k := range r.rep.Reached {
			reached = append(reached, k)
		}
		sort.Strings(reached)
		if len(r.rep.Violations) == 0 && len(r.rep.Unknowns) == 0 && len(r.rep.Unsupported) == 0 && r.rep.UnwoundOut == 0 && r.rep.Paths > 0 {
			discharged++
		}
		perOb = append(perOb, map[string]interface{}{
			"name": o.Name, "entry": o.Entry, "pkg": o.Pkg, "bound": o.Bound, "twin": o.Twin,
			"paths": r.rep.Paths, "assertion_instances": r.rep.Asserts, "proven_unsat": r.rep.Proven, "trivially_true": r.rep.Trivial,
			"violations": len(r.rep.Violations), "unknown": len(r.rep.Unknowns), "unsupported_paths": len(r.rep.Unsupported),
			"unwound_out": r.rep.UnwoundOut, "assume_pruned": r.rep.AssumePruned, "forks": r.rep.Forks, "merges": r.rep.Merges,
			"solver_queries": r.stats.Queries, "sat": r.stats.Sat, "unsat": r.stats.Unsat, "solver_unknown": r.stats.Unknown,
			"solver_s": r.stats.Dur.Seconds(), "max_query_s": r.stats.MaxQuery.Seconds(), "tasks": r.tasks, "interp_steps": r.rep.Steps,
			"reach_points": reached, "max_assert_term_nodes": r.rep.MaxTermSize,
			"unknown_examples": firstN(r.rep.Unknowns, 3), "unsupported_examples": firstN(r.rep.Unsupported, 3),
		})
	}
	if len(samples) == 0 {
		samples = append(samples, "no completed path")
	}
	if states == 0 {
		states = 0
	}
	ev := map[string]interface{}{
		"property_id": spec.Property,
		"tier":        tier,
		"seed":        seed,
		"level":       "model_checking",
		"coverage": map[string]interface{}{
			"states":                        max1(states),
			"transitions":                   max1(trans),
			"traces_validated_against_impl": validated,
			"samples":                       samples,
			"explanation":                   "states = symbolic paths of the real code explored to completion (each path stands for all inputs satisfying its path condition); transitions = SMT queries discharged; traces_validated = solver models (counterexamples and one reachability witness per obligation) replayed against the natively compiled code with matching outcome",
			"functions_encoded":             sortedKeys(funcs),
			"stubs_and_models":              sortedKeys(stubs),
			"assertion_instances":           asserts,
			"proven_unsat":                  proven,
			"solver_seconds":                solverS,
			"obligations":                   len(perOb),
			"discharged":                    discharged,
			"obligation_details":            perOb,
			"outside_the_claim":             spec.Outside,
			"notes":                         notes,
			"exhaustive":                    false,
		},
		"assumptions": spec.Assumptions,
		"wall_s":      wall.Seconds(),
		"violations":  viol,
	}
	b, _ := json.MarshalIndent(ev, "", " ")
	os.WriteFile(path, b, 0644)
}

func max1(n int) int {
	if n < 1 {
		return 1
	}
	return n
}

func firstN(s []string, n int) []string {
	if len(s) > n {
		return s[:n]
	}
	return s
}

func sortedKeys(m map[string]bool) []string {
	var out []string
	for k := range m {
		out = append(out, k)
	}
	sort.Strings(out)
	return out
}
