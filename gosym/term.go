package main

// Terms: the SMT-side representation of scalar values. Constants are plain
// structs (not hash-consed, compared by value); every other term is hash-consed
// inside a TermCtx (one per worker) so pointer equality is structural equality.

import (
	"fmt"
	"math"
	"math/bits"
	"sort"
	"strings"
)

type SortKind uint8

const (
	SBool SortKind = iota
	SBV
	SFP32
	SFP64
	SArr
)

type Sort struct {
	K  SortKind
	W  int // BV width; for arrays: index width
	EW int // arrays: element width
}

func BV(w int) Sort { return Sort{K: SBV, W: w} }

var BoolSort = Sort{K: SBool}
var FP32Sort = Sort{K: SFP32}
var FP64Sort = Sort{K: SFP64}

func (s Sort) SMT() string {
	switch s.K {
	case SBool:
		return "Bool"
	case SBV:
		return fmt.Sprintf("(_ BitVec %d)", s.W)
	case SFP32:
		return "(_ FloatingPoint 8 24)"
	case SFP64:
		return "(_ FloatingPoint 11 53)"
	case SArr:
		return fmt.Sprintf("(Array (_ BitVec %d) (_ BitVec %d))", s.W, s.EW)
	}
	return "?"
}

type Op uint8

const (
	OConst Op = iota
	OVar
	OTable // constant array, data in tab
	ONot
	OAnd
	OOr
	OIte
	OEq
	OBVNot
	OBVNeg
	OBVAnd
	OBVOr
	OBVXor
	OBVAdd
	OBVSub
	OBVMul
	OBVUDiv
	OBVURem
	OBVSDiv
	OBVSRem
	OBVShl
	OBVLshr
	OBVAshr
	OBVUlt
	OBVUle
	OBVSlt
	OBVSle
	OExtract // p0=hi p1=lo
	OZExt    // p0 = extra bits
	OSExt
	OConcat
	OSelect
	OFPAdd
	OFPSub
	OFPMul
	OFPDiv
	OFPNeg
	OFPLt
	OFPLe
	OFPEq
	OFPIsNaN
	OFPIsInf
	OFPFromSBV // to sort
	OFPFromUBV
	OFPToFP   // fp -> fp
	OFPToSBV  // p0 = width (RTZ)
	OFPToUBV  // p0 = width
	OFPRound  // roundToIntegral RNA (math.Round)
	OFPSqrt   // RNE
	OFPAbs
)

var opNames = map[Op]string{
	ONot: "not", OAnd: "and", OOr: "or", OIte: "ite", OEq: "=",
	OBVNot: "bvnot", OBVNeg: "bvneg", OBVAnd: "bvand", OBVOr: "bvor", OBVXor: "bvxor",
	OBVAdd: "bvadd", OBVSub: "bvsub", OBVMul: "bvmul", OBVUDiv: "bvudiv", OBVURem: "bvurem",
	OBVSDiv: "bvsdiv", OBVSRem: "bvsrem", OBVShl: "bvshl", OBVLshr: "bvlshr", OBVAshr: "bvashr",
	OBVUlt: "bvult", OBVUle: "bvule", OBVSlt: "bvslt", OBVSle: "bvsle", OConcat: "concat", OSelect: "select",
	OFPAdd: "fp.add RNE", OFPSub: "fp.sub RNE", OFPMul: "fp.mul RNE", OFPDiv: "fp.div RNE", OFPNeg: "fp.neg",
	OFPLt: "fp.lt", OFPLe: "fp.leq", OFPEq: "fp.eq", OFPIsNaN: "fp.isNaN", OFPIsInf: "fp.isInfinite",
	OFPRound: "fp.roundToIntegral RNA", OFPSqrt: "fp.sqrt RNE", OFPAbs: "fp.abs",
}

type Table struct {
	Name string
	Data []uint64
	IW   int
	EW   int
	Max  uint64
}

func NewTable(name string, data []uint64, iw, ew int) *Table {
	tb := &Table{Name: name, Data: data, IW: iw, EW: ew}
	for _, v := range data {
		if v > tb.Max {
			tb.Max = v
		}
	}
	return tb
}

type Term struct {
	Op   Op
	S    Sort
	Args []*Term
	C    uint64 // const bits
	Name string // var
	P0   int
	P1   int
	Tab  *Table
	ID   int // >0 for hash-consed
}

func (t *Term) IsConst() bool { return t.Op == OConst }

var (
	TrueT  = &Term{Op: OConst, S: BoolSort, C: 1}
	FalseT = &Term{Op: OConst, S: BoolSort, C: 0}
)

func BoolC(b bool) *Term {
	if b {
		return TrueT
	}
	return FalseT
}

func maskW(w int) uint64 {
	if w >= 64 {
		return ^uint64(0)
	}
	return (uint64(1) << uint(w)) - 1
}

var smallConsts [65][258]*Term

func BVC(w int, v uint64) *Term {
	v &= maskW(w)
	if v < 258 {
		if t := smallConsts[w][v]; t != nil {
			return t
		}
		t := &Term{Op: OConst, S: BV(w), C: v}
		smallConsts[w][v] = t
		return t
	}
	return &Term{Op: OConst, S: BV(w), C: v}
}

func FP32C(f float32) *Term { return &Term{Op: OConst, S: FP32Sort, C: uint64(math.Float32bits(f))} }
func FP64C(f float64) *Term { return &Term{Op: OConst, S: FP64Sort, C: math.Float64bits(f)} }

func (t *Term) F32() float32 { return math.Float32frombits(uint32(t.C)) }
func (t *Term) F64() float64 { return math.Float64frombits(t.C) }

// signed value of a BV constant
func (t *Term) SInt() int64 {
	w := t.S.W
	if w >= 64 {
		return int64(t.C)
	}
	if t.C&(1<<uint(w-1)) != 0 {
		return int64(t.C | ^maskW(w))
	}
	return int64(t.C)
}

func sameConst(a, b *Term) bool {
	return a.Op == OConst && b.Op == OConst && a.S == b.S && a.C == b.C
}

// SameTerm is structural equality (pointer equality for hash-consed terms).
func SameTerm(a, b *Term) bool {
	if a == b {
		return true
	}
	return sameConst(a, b)
}

type TermCtx struct {
	tab    map[string]*Term
	nextID int
	vars   map[string]*Term
	tables map[string]*Term
	nfresh int
	exMemo map[[3]int]*Term
	eqMemo map[[2]int]*Term
	andMemo map[[2]uint64]*Term
}

func NewTermCtx() *TermCtx {
	return &TermCtx{tab: map[string]*Term{}, vars: map[string]*Term{}, tables: map[string]*Term{}, exMemo: map[[3]int]*Term{}, eqMemo: map[[2]int]*Term{}, andMemo: map[[2]uint64]*Term{}}
}

func (c *TermCtx) mk(op Op, s Sort, p0, p1 int, args ...*Term) *Term {
	var sb strings.Builder
	fmt.Fprintf(&sb, "%d|%d.%d.%d|%d.%d", op, s.K, s.W, s.EW, p0, p1)
	for _, a := range args {
		if a.Op == OConst {
			fmt.Fprintf(&sb, "|c%d.%d.%x", a.S.K, a.S.W, a.C)
		} else {
			fmt.Fprintf(&sb, "|%d", a.ID)
		}
	}
	k := sb.String()
	if t, ok := c.tab[k]; ok {
		return t
	}
	c.nextID++
	t := &Term{Op: op, S: s, Args: append([]*Term(nil), args...), P0: p0, P1: p1, ID: c.nextID}
	c.tab[k] = t
	return t
}

func (c *TermCtx) Var(name string, s Sort) *Term {
	if t, ok := c.vars[name]; ok {
		if t.S != s {
			panic("var sort clash " + name)
		}
		return t
	}
	c.nextID++
	t := &Term{Op: OVar, S: s, Name: name, ID: c.nextID}
	c.vars[name] = t
	return t
}

func (c *TermCtx) Fresh(prefix string, s Sort) *Term {
	c.nfresh++
	return c.Var(fmt.Sprintf("%s!%d", prefix, c.nfresh), s)
}

func (c *TermCtx) TableTerm(tb *Table) *Term {
	if t, ok := c.tables[tb.Name]; ok {
		return t
	}
	c.nextID++
	t := &Term{Op: OTable, S: Sort{K: SArr, W: tb.IW, EW: tb.EW}, Tab: tb, Name: tb.Name, ID: c.nextID}
	c.tables[tb.Name] = t
	return t
}

// ---------- boolean ----------

func (c *TermCtx) Not(a *Term) *Term {
	if a.Op == OConst {
		return BoolC(a.C == 0)
	}
	if a.Op == ONot {
		return a.Args[0]
	}
	return c.mk(ONot, BoolSort, 0, 0, a)
}

func (c *TermCtx) And(a, b *Term) *Term {
	if a.Op == OConst {
		if a.C == 0 {
			return FalseT
		}
		return b
	}
	if b.Op == OConst {
		if b.C == 0 {
			return FalseT
		}
		return a
	}
	if a == b {
		return a
	}
	if (a.Op == ONot && a.Args[0] == b) || (b.Op == ONot && b.Args[0] == a) {
		return FalseT
	}
	return c.mk(OAnd, BoolSort, 0, 0, a, b)
}

func (c *TermCtx) Or(a, b *Term) *Term {
	if a.Op == OConst {
		if a.C != 0 {
			return TrueT
		}
		return b
	}
	if b.Op == OConst {
		if b.C != 0 {
			return TrueT
		}
		return a
	}
	if a == b {
		return a
	}
	if (a.Op == ONot && a.Args[0] == b) || (b.Op == ONot && b.Args[0] == a) {
		return TrueT
	}
	return c.mk(OOr, BoolSort, 0, 0, a, b)
}

func (c *TermCtx) AndN(ts []*Term) *Term {
	r := TrueT
	for _, t := range ts {
		r = c.And(r, t)
	}
	return r
}

func (c *TermCtx) Implies(a, b *Term) *Term { return c.Or(c.Not(a), b) }

func (c *TermCtx) Ite(cond, a, b *Term) *Term {
	if cond.Op == OConst {
		if cond.C != 0 {
			return a
		}
		return b
	}
	if SameTerm(a, b) {
		return a
	}
	if a.S != b.S {
		panic(fmt.Sprintf("ite sort mismatch %v %v", a.S, b.S))
	}
	if a.S.K == SBool {
		if a.Op == OConst && b.Op == OConst {
			if a.C != 0 {
				return cond
			}
			return c.Not(cond)
		}
		if a.Op == OConst {
			if a.C != 0 {
				return c.Or(cond, b)
			}
			return c.And(c.Not(cond), b)
		}
		if b.Op == OConst {
			if b.C != 0 {
				return c.Or(c.Not(cond), a)
			}
			return c.And(cond, a)
		}
	}
	// ite(c, x ^ k, x) with n-ary xor operands: x ^ ite(c, k, 0)
	if a.S.K == SBV && (a.Op == OBVXor || b.Op == OBVXor) {
		nl := func(t *Term) int {
			if t.Op == OBVXor {
				return len(t.Args)
			}
			if t.Op == OConst {
				return 0
			}
			return 1
		}
		d := c.bin(OBVXor, a, b)
		na, nb := nl(a), nl(b)
		mx := na
		if nb > mx {
			mx = nb
		}
		if d.Op == OConst || nl(d) < mx {
			// the arms share most xor operands: factor the common part out
			return c.bin(OBVXor, b, c.Ite(cond, d, BVC(d.S.W, 0)))
		}
	}
	// ite(c, x op k, x) = x op ite(c, k, 0) for op in {xor, or, add} (keeps folds flat)
	if a.S.K == SBV {
		for _, sw := range [2]bool{false, true} {
			x, y := a, b
			if sw {
				x, y = b, a
			}
			if (x.Op == OBVXor || x.Op == OBVOr || x.Op == OBVAdd) && len(x.Args) == 2 {
				var k *Term
				if x.Args[0] == y {
					k = x.Args[1]
				} else if x.Args[1] == y {
					k = x.Args[0]
				}
				if k != nil && k.Op == OConst {
					z := BVC(k.S.W, 0)
					var sel *Term
					if sw {
						sel = c.Ite(cond, z, k)
					} else {
						sel = c.Ite(cond, k, z)
					}
					return c.bin(x.Op, y, sel)
				}
			}
		}
	}
	// ite(c, x, ite(c, y, z)) = ite(c,x,z)
	if b.Op == OIte && b.Args[0] == cond {
		return c.Ite(cond, a, b.Args[2])
	}
	if a.Op == OIte && a.Args[0] == cond {
		return c.Ite(cond, a.Args[1], b)
	}
	if cond.Op == ONot {
		return c.Ite(cond.Args[0], b, a)
	}
	return c.mk(OIte, a.S, 0, 0, cond, a, b)
}

func (c *TermCtx) Eq(a, b *Term) *Term {
	if a.S != b.S {
		panic(fmt.Sprintf("eq sort mismatch %v %v", a.S, b.S))
	}
	if a.S.K == SFP32 || a.S.K == SFP64 {
		panic("use FPEq for floats")
	}
	if a.Op == OConst && b.Op == OConst {
		return BoolC(a.C == b.C)
	}
	if a == b {
		return TrueT
	}
	if a.S.K == SBV && (a.Op == OBVXor || b.Op == OBVXor) && !(b.Op == OConst && b.C == 0) && !(a.Op == OConst && a.C == 0) {
		// a = b  <=>  a ^ b = 0, with syntactic cancellation of common xor operands
		return c.Eq(c.bin(OBVXor, a, b), BVC(a.S.W, 0))
	}
	if a.Op == OConst {
		a, b = b, a
	}
	if a.S.K == SBool {
		if b.Op == OConst {
			if b.C != 0 {
				return a
			}
			return c.Not(a)
		}
	}
	if b.Op == OConst {
		// eq(ite(c,k1,k2),k) with constant arms
		if a.Op == OIte {
			x, y := a.Args[1], a.Args[2]
			if x.Op == OConst || y.Op == OConst {
				k := [2]int{a.ID, int(b.C)}
				if b.C < 1<<31 {
					if r, ok := c.eqMemo[k]; ok {
						return r
					}
				}
				r := c.Ite(a.Args[0], c.Eq(x, b), c.Eq(y, b))
				if b.C < 1<<31 {
					c.eqMemo[k] = r
				}
				return r
			}
		}
		if a.Op == OZExt {
			in := a.Args[0]
			if b.C>>uint(in.S.W) != 0 {
				return FalseT
			}
			return c.Eq(in, BVC(in.S.W, b.C))
		}
		if mx, ok := maxU(a); ok && b.C > mx {
			return FalseT
		}
	}
	if a.Op != OConst && b.Op != OConst && a.ID > b.ID {
		a, b = b, a
	}
	return c.mk(OEq, BoolSort, 0, 0, a, b)
}

// ---------- bit-vectors ----------

func (c *TermCtx) bin(op Op, a, b *Term) *Term {
	if a.S != b.S || a.S.K != SBV {
		panic(fmt.Sprintf("bv binop sort mismatch op=%d %v %v", op, a.S, b.S))
	}
	w := a.S.W
	m := maskW(w)
	if a.Op == OConst && b.Op == OConst {
		x, y := a.C, b.C
		switch op {
		case OBVAnd:
			return BVC(w, x&y)
		case OBVOr:
			return BVC(w, x|y)
		case OBVXor:
			return BVC(w, x^y)
		case OBVAdd:
			return BVC(w, x+y)
		case OBVSub:
			return BVC(w, x-y)
		case OBVMul:
			return BVC(w, x*y)
		case OBVUDiv:
			if y == 0 {
				return BVC(w, m)
			}
			return BVC(w, x/y)
		case OBVURem:
			if y == 0 {
				return BVC(w, x)
			}
			return BVC(w, x%y)
		case OBVSDiv:
			sx, sy := a.SInt(), b.SInt()
			if sy == 0 {
				if sx < 0 {
					return BVC(w, 1)
				}
				return BVC(w, m)
			}
			if sy == -1 {
				return BVC(w, uint64(-sx))
			}
			return BVC(w, uint64(sx/sy))
		case OBVSRem:
			sx, sy := a.SInt(), b.SInt()
			if sy == 0 {
				return BVC(w, x)
			}
			if sy == -1 {
				return BVC(w, 0)
			}
			return BVC(w, uint64(sx%sy))
		case OBVShl:
			if y >= uint64(w) {
				return BVC(w, 0)
			}
			return BVC(w, x<<y)
		case OBVLshr:
			if y >= uint64(w) {
				return BVC(w, 0)
			}
			return BVC(w, x>>y)
		case OBVAshr:
			sx := a.SInt()
			if y >= uint64(w) {
				y = uint64(w - 1)
			}
			return BVC(w, uint64(sx>>y))
		}
	}
	switch op {
	case OBVAnd:
		if a.Op == OConst {
			a, b = b, a
		}
		if b.Op == OConst {
			if b.C == 0 {
				return b
			}
			if b.C == m {
				return a
			}
			if mx, ok := maxU(a); ok && mx <= b.C && isLowMask(b.C) {
				return a
			}
			if r := c.andConst(a, b); r != nil {
				return r
			}
		}
		if a == b {
			return a
		}
	case OBVOr:
		if a.Op == OConst {
			a, b = b, a
		}
		if b.Op == OConst {
			if b.C == 0 {
				return a
			}
			if b.C == m {
				return b
			}
		}
		if a == b {
			return a
		}
	case OBVXor:
		if a.Op == OConst {
			a, b = b, a
		}
		if b.Op == OConst && b.C == 0 {
			return a
		}
		if a == b {
			return BVC(w, 0)
		}
		return c.xorN(a, b)
	case OBVAdd:
		if a.Op == OConst {
			a, b = b, a
		}
		if b.Op == OConst && b.C == 0 {
			return a
		}
	case OBVSub:
		if b.Op == OConst && b.C == 0 {
			return a
		}
		if a == b {
			return BVC(w, 0)
		}
	case OBVMul:
		if a.Op == OConst {
			a, b = b, a
		}
		if b.Op == OConst {
			if b.C == 0 {
				return b
			}
			if b.C == 1 {
				return a
			}
		}
	case OBVShl, OBVLshr:
		if b.Op == OConst {
			if b.C == 0 {
				return a
			}
			if b.C >= uint64(w) {
				return BVC(w, 0)
			}
		}
		if a.Op == OConst && a.C == 0 {
			return a
		}
	case OBVAshr:
		if b.Op == OConst && b.C == 0 {
			return a
		}
	}
	// commutative normalisation
	switch op {
	case OBVAnd, OBVOr, OBVXor, OBVAdd, OBVMul:
		if a.Op != OConst && b.Op != OConst && a.ID > b.ID {
			a, b = b, a
		}
	}
	return c.mk(op, a.S, 0, 0, a, b)
}

func isLowMask(v uint64) bool { return v&(v+1) == 0 }

// xorN keeps xor as a flattened, sorted, duplicate-free n-ary term so that equal
// contributions cancel syntactically (x ^ x = 0) however the chains were built.
func (c *TermCtx) xorN(a, b *Term) *Term {
	w := a.S.W
	var k uint64
	cnt := map[*Term]int{}
	var order []*Term
	add := func(t *Term) {
		if t.Op == OConst {
			k ^= t.C
			return
		}
		if _, ok := cnt[t]; !ok {
			order = append(order, t)
		}
		cnt[t]++
	}
	for _, t := range [2]*Term{a, b} {
		if t.Op == OBVXor {
			for _, x := range t.Args {
				add(x)
			}
		} else {
			add(t)
		}
	}
	var leaves []*Term
	for _, t := range order {
		if cnt[t]%2 == 1 {
			leaves = append(leaves, t)
		}
	}
	sort.Slice(leaves, func(i, j int) bool { return leaves[i].ID < leaves[j].ID })
	k &= maskW(w)
	if len(leaves) == 0 {
		return BVC(w, k)
	}
	if k != 0 {
		leaves = append(leaves, BVC(w, k))
	}
	if len(leaves) == 1 {
		return leaves[0]
	}
	return c.mk(OBVXor, a.S, 0, 0, leaves...)
}

// andConst pushes a constant mask through or/xor/and/ite/not so that single-bit
// tests of updated bitboards reduce to tests of the original ones. nil = no rewrite.
func (c *TermCtx) andConst(a, k *Term) *Term {
	if a.ID == 0 {
		return nil
	}
	key := [2]uint64{uint64(a.ID), k.C}
	if r, ok := c.andMemo[key]; ok {
		return r
	}
	var r *Term
	and := func(x *Term) *Term { return c.bin(OBVAnd, x, k) }
	switch a.Op {
	case OBVAnd:
		// (y & d) & k = y & (d & k)
		if len(a.Args) == 2 && a.Args[1].Op == OConst {
			nd := a.Args[1].C & k.C
			if nd == a.Args[1].C {
				r = a
			} else if nd == 0 {
				r = BVC(a.S.W, 0)
			} else {
				r = c.bin(OBVAnd, a.Args[0], BVC(a.S.W, nd))
			}
		}
	case OBVOr, OBVXor:
		hasConst := false
		for _, x := range a.Args {
			if x.Op == OConst {
				hasConst = true
			}
		}
		// distribute fully for sparse masks (bit tests), else only when a constant is involved
		if hasConst || bits.OnesCount64(k.C) <= 2 {
			acc := and(a.Args[0])
			for _, x := range a.Args[1:] {
				acc = c.bin(a.Op, acc, and(x))
			}
			r = acc
		}
	case OIte:
		if a.Args[1].Op == OConst || a.Args[2].Op == OConst || bits.OnesCount64(k.C) <= 2 {
			r = c.Ite(a.Args[0], and(a.Args[1]), and(a.Args[2]))
		}
	case OBVNot:
		if bits.OnesCount64(k.C) <= 2 {
			r = c.bin(OBVXor, and(a.Args[0]), k)
		}
	}
	c.andMemo[key] = r
	return r
}

func (c *TermCtx) BVAnd(a, b *Term) *Term  { return c.bin(OBVAnd, a, b) }
func (c *TermCtx) BVOr(a, b *Term) *Term   { return c.bin(OBVOr, a, b) }
func (c *TermCtx) BVXor(a, b *Term) *Term  { return c.bin(OBVXor, a, b) }
func (c *TermCtx) BVAdd(a, b *Term) *Term  { return c.bin(OBVAdd, a, b) }
func (c *TermCtx) BVSub(a, b *Term) *Term  { return c.bin(OBVSub, a, b) }
func (c *TermCtx) BVMul(a, b *Term) *Term  { return c.bin(OBVMul, a, b) }
func (c *TermCtx) BVUDiv(a, b *Term) *Term { return c.bin(OBVUDiv, a, b) }
func (c *TermCtx) BVURem(a, b *Term) *Term { return c.bin(OBVURem, a, b) }
func (c *TermCtx) BVSDiv(a, b *Term) *Term { return c.bin(OBVSDiv, a, b) }
func (c *TermCtx) BVSRem(a, b *Term) *Term { return c.bin(OBVSRem, a, b) }
func (c *TermCtx) BVShl(a, b *Term) *Term  { return c.bin(OBVShl, a, b) }
func (c *TermCtx) BVLshr(a, b *Term) *Term { return c.bin(OBVLshr, a, b) }
func (c *TermCtx) BVAshr(a, b *Term) *Term { return c.bin(OBVAshr, a, b) }

func (c *TermCtx) BVNot(a *Term) *Term {
	if a.Op == OConst {
		return BVC(a.S.W, ^a.C)
	}
	if a.Op == OBVNot {
		return a.Args[0]
	}
	return c.mk(OBVNot, a.S, 0, 0, a)
}

func (c *TermCtx) BVNeg(a *Term) *Term {
	if a.Op == OConst {
		return BVC(a.S.W, -a.C)
	}
	return c.mk(OBVNeg, a.S, 0, 0, a)
}

func (c *TermCtx) cmp(op Op, a, b *Term) *Term {
	if a.S != b.S || a.S.K != SBV {
		panic(fmt.Sprintf("bv cmp sort mismatch %v %v", a.S, b.S))
	}
	if a.Op == OConst && b.Op == OConst {
		switch op {
		case OBVUlt:
			return BoolC(a.C < b.C)
		case OBVUle:
			return BoolC(a.C <= b.C)
		case OBVSlt:
			return BoolC(a.SInt() < b.SInt())
		case OBVSle:
			return BoolC(a.SInt() <= b.SInt())
		}
	}
	if a == b {
		return BoolC(op == OBVUle || op == OBVSle)
	}
	switch op {
	case OBVUlt:
		if b.Op == OConst {
			if b.C == 0 {
				return FalseT
			}
			if mx, ok := maxU(a); ok && mx < b.C {
				return TrueT
			}
		}
		if a.Op == OConst {
			if mx, ok := maxU(b); ok && mx <= a.C {
				return FalseT
			}
		}
	case OBVUle:
		if b.Op == OConst {
			if mx, ok := maxU(a); ok && mx <= b.C {
				return TrueT
			}
		}
		if a.Op == OConst && a.C == 0 {
			return TrueT
		}
	case OBVSlt, OBVSle:
		// both provably non-negative => unsigned compare
		ma, oka := maxU(a)
		mb, okb := maxU(b)
		half := uint64(1) << uint(a.S.W-1)
		if oka && okb && ma < half && mb < half {
			if op == OBVSlt {
				return c.cmp(OBVUlt, a, b)
			}
			return c.cmp(OBVUle, a, b)
		}
	}
	return c.mk(op, BoolSort, 0, 0, a, b)
}

func (c *TermCtx) Ult(a, b *Term) *Term { return c.cmp(OBVUlt, a, b) }
func (c *TermCtx) Ule(a, b *Term) *Term { return c.cmp(OBVUle, a, b) }
func (c *TermCtx) Slt(a, b *Term) *Term { return c.cmp(OBVSlt, a, b) }
func (c *TermCtx) Sle(a, b *Term) *Term { return c.cmp(OBVSle, a, b) }

func (c *TermCtx) Extract(hi, lo int, a *Term) *Term {
	if a.Op == OConst || a.ID == 0 {
		return c.extract1(hi, lo, a)
	}
	k := [3]int{hi, lo, a.ID}
	if r, ok := c.exMemo[k]; ok {
		return r
	}
	r := c.extract1(hi, lo, a)
	c.exMemo[k] = r
	return r
}

func (c *TermCtx) extract1(hi, lo int, a *Term) *Term {
	w := hi - lo + 1
	if lo == 0 && w == a.S.W {
		return a
	}
	if a.Op == OConst {
		return BVC(w, a.C>>uint(lo))
	}
	if a.Op == OZExt {
		in := a.Args[0]
		if hi < in.S.W {
			return c.Extract(hi, lo, in)
		}
		if lo >= in.S.W {
			return BVC(w, 0)
		}
		if lo == 0 {
			return c.ZExt(w-in.S.W, in)
		}
	}
	if a.Op == OSExt {
		in := a.Args[0]
		if hi < in.S.W {
			return c.Extract(hi, lo, in)
		}
	}
	if a.Op == OExtract {
		return c.Extract(hi+a.P1, lo+a.P1, a.Args[0])
	}
	if lo == 0 {
		switch a.Op {
		case OBVAnd, OBVOr, OBVXor, OBVAdd, OBVSub, OBVMul:
			// truncation distributes over these
			x, y := a.Args[0], a.Args[1]
			if len(a.Args) == 2 && (x.Op == OZExt || x.Op == OSExt || x.Op == OConst || y.Op == OZExt || y.Op == OSExt || y.Op == OConst) {
				return c.bin(a.Op, c.Extract(hi, 0, x), c.Extract(hi, 0, y))
			}
		case OIte:
			return c.Ite(a.Args[0], c.Extract(hi, lo, a.Args[1]), c.Extract(hi, lo, a.Args[2]))
		}
	}
	return c.mk(OExtract, BV(w), hi, lo, a)
}

func (c *TermCtx) ZExt(n int, a *Term) *Term {
	if n == 0 {
		return a
	}
	if a.Op == OConst {
		return BVC(a.S.W+n, a.C)
	}
	if a.Op == OZExt {
		return c.ZExt(n+a.P0, a.Args[0])
	}
	return c.mk(OZExt, BV(a.S.W+n), n, 0, a)
}

func (c *TermCtx) SExt(n int, a *Term) *Term {
	if n == 0 {
		return a
	}
	if a.Op == OConst {
		return BVC(a.S.W+n, uint64(a.SInt()))
	}
	if mx, ok := maxU(a); ok && mx < uint64(1)<<uint(a.S.W-1) {
		return c.ZExt(n, a)
	}
	return c.mk(OSExt, BV(a.S.W+n), n, 0, a)
}

// Resize converts between widths with Go conversion semantics.
func (c *TermCtx) Resize(a *Term, to int, signedSrc bool) *Term {
	w := a.S.W
	if to == w {
		return a
	}
	if to < w {
		return c.Extract(to-1, 0, a)
	}
	if signedSrc {
		return c.SExt(to-w, a)
	}
	return c.ZExt(to-w, a)
}

func (c *TermCtx) Concat(a, b *Term) *Term {
	if a.Op == OConst && b.Op == OConst {
		return BVC(a.S.W+b.S.W, a.C<<uint(b.S.W)|b.C)
	}
	return c.mk(OConcat, BV(a.S.W+b.S.W), 0, 0, a, b)
}

func (c *TermCtx) Select(arr, idx *Term) *Term {
	if arr.Op == OTable && idx.Op == OConst {
		if int(idx.C) < len(arr.Tab.Data) {
			return BVC(arr.S.EW, arr.Tab.Data[idx.C])
		}
		return BVC(arr.S.EW, 0)
	}
	return c.mk(OSelect, BV(arr.S.EW), 0, 0, arr, idx)
}

// maxU returns a cheap syntactic upper bound of an unsigned BV term.
func maxU(t *Term) (uint64, bool) {
	if t.S.K != SBV {
		return 0, false
	}
	if t.Op == OConst {
		return t.C, true
	}
	memo := map[*Term]uint64{}
	return maxUm(t, memo), true
}

func maxUm(t *Term, memo map[*Term]uint64) uint64 {
	if t.Op == OConst {
		return t.C
	}
	if v, ok := memo[t]; ok {
		return v
	}
	memo[t] = maskW(t.S.W) // cycle/budget guard
	if len(memo) > 4000 {
		return maskW(t.S.W)
	}
	v, _ := maxUd(t, memo)
	memo[t] = v
	return v
}

func maxUd(t *Term, memo map[*Term]uint64) (uint64, bool) {
	if t.S.K != SBV {
		return 0, false
	}
	full := maskW(t.S.W)
	switch t.Op {
	case OConst:
		return t.C, true
	case OZExt:
		return maxUm(t.Args[0], memo), true
	case OBVAnd:
		a := maxUm(t.Args[0], memo)
		b := maxUm(t.Args[1], memo)
		if a < b {
			return a, true
		}
		return b, true
	case OBVOr, OBVXor:
		var acc uint64
		for _, x := range t.Args {
			a := maxUm(x, memo)
			acc |= a
		}
		n := bits.Len64(acc)
		return maskW(n) & full, true
	case OIte:
		a := maxUm(t.Args[1], memo)
		b := maxUm(t.Args[2], memo)
		if a > b {
			return a, true
		}
		return b, true
	case OBVLshr:
		a := maxUm(t.Args[0], memo)
		if t.Args[1].Op == OConst {
			if t.Args[1].C >= 64 {
				return 0, true
			}
			return a >> t.Args[1].C, true
		}
		return a, true
	case OBVURem:
		if t.Args[1].Op == OConst && t.Args[1].C > 0 {
			return t.Args[1].C - 1, true
		}
	case OBVUDiv:
		a := maxUm(t.Args[0], memo)
		if t.Args[1].Op == OConst && t.Args[1].C > 0 {
			return a / t.Args[1].C, true
		}
		return a, true
	case OBVAdd:
		a := maxUm(t.Args[0], memo)
		b := maxUm(t.Args[1], memo)
		s := a + b
		if s >= a && s <= full {
			return s, true
		}
	case OBVShl:
		a := maxUm(t.Args[0], memo)
		if t.Args[1].Op == OConst && t.Args[1].C < 64 {
			s := a << t.Args[1].C
			if s>>t.Args[1].C == a && s <= full {
				return s, true
			}
		}
	case OBVMul:
		a := maxUm(t.Args[0], memo)
		b := maxUm(t.Args[1], memo)
		hi, lo := bits.Mul64(a, b)
		if hi == 0 && lo <= full {
			return lo, true
		}
	case OExtract:
		if t.P1 == 0 {
			a := maxUm(t.Args[0], memo)
			if a <= full {
				return a, true
			}
		}
	case OSelect:
		if t.Args[0].Op == OTable {
			return t.Args[0].Tab.Max, true
		}
	}
	return full, true
}

// ---------- floating point ----------

func (c *TermCtx) fpbin(op Op, a, b *Term) *Term {
	if a.S != b.S {
		panic("fp sort mismatch")
	}
	if a.Op == OConst && b.Op == OConst {
		if a.S.K == SFP32 {
			x, y := a.F32(), b.F32()
			switch op {
			case OFPAdd:
				return FP32C(x + y)
			case OFPSub:
				return FP32C(x - y)
			case OFPMul:
				return FP32C(x * y)
			case OFPDiv:
				return FP32C(x / y)
			case OFPLt:
				return BoolC(x < y)
			case OFPLe:
				return BoolC(x <= y)
			case OFPEq:
				return BoolC(x == y)
			}
		} else {
			x, y := a.F64(), b.F64()
			switch op {
			case OFPAdd:
				return FP64C(x + y)
			case OFPSub:
				return FP64C(x - y)
			case OFPMul:
				return FP64C(x * y)
			case OFPDiv:
				return FP64C(x / y)
			case OFPLt:
				return BoolC(x < y)
			case OFPLe:
				return BoolC(x <= y)
			case OFPEq:
				return BoolC(x == y)
			}
		}
	}
	s := a.S
	if op == OFPLt || op == OFPLe || op == OFPEq {
		s = BoolSort
	}
	return c.mk(op, s, 0, 0, a, b)
}

func (c *TermCtx) FPNeg(a *Term) *Term {
	if a.Op == OConst {
		if a.S.K == SFP32 {
			return FP32C(-a.F32())
		}
		return FP64C(-a.F64())
	}
	return c.mk(OFPNeg, a.S, 0, 0, a)
}

func (c *TermCtx) FPIsNaN(a *Term) *Term {
	if a.Op == OConst {
		if a.S.K == SFP32 {
			f := a.F32()
			return BoolC(f != f)
		}
		f := a.F64()
		return BoolC(f != f)
	}
	return c.mk(OFPIsNaN, BoolSort, 0, 0, a)
}

func (c *TermCtx) FPIsInf(a *Term) *Term {
	if a.Op == OConst {
		if a.S.K == SFP32 {
			return BoolC(math.IsInf(float64(a.F32()), 0))
		}
		return BoolC(math.IsInf(a.F64(), 0))
	}
	return c.mk(OFPIsInf, BoolSort, 0, 0, a)
}

func (c *TermCtx) FPUn(op Op, a *Term) *Term {
	if a.Op == OConst {
		var f float64
		if a.S.K == SFP32 {
			f = float64(a.F32())
		} else {
			f = a.F64()
		}
		var r float64
		switch op {
		case OFPRound:
			r = math.Round(f)
		case OFPSqrt:
			r = math.Sqrt(f)
		case OFPAbs:
			r = math.Abs(f)
		}
		if a.S.K == SFP32 {
			return FP32C(float32(r))
		}
		return FP64C(r)
	}
	return c.mk(op, a.S, 0, 0, a)
}

// FPConv converts an fp term to another fp sort.
func (c *TermCtx) FPConv(a *Term, to Sort) *Term {
	if a.S == to {
		return a
	}
	if a.Op == OConst {
		if to.K == SFP64 {
			return FP64C(float64(a.F32()))
		}
		return FP32C(float32(a.F64()))
	}
	return c.mk(OFPToFP, to, 0, 0, a)
}

func (c *TermCtx) FPFromInt(a *Term, signed bool, to Sort) *Term {
	if a.Op == OConst {
		var f float64
		if signed {
			f = float64(a.SInt())
			if to.K == SFP32 {
				return FP32C(float32(a.SInt()))
			}
		} else {
			f = float64(a.C)
			if to.K == SFP32 {
				return FP32C(float32(a.C))
			}
		}
		return FP64C(f)
	}
	if signed {
		return c.mk(OFPFromSBV, to, 0, 0, a)
	}
	return c.mk(OFPFromUBV, to, 0, 0, a)
}

func (c *TermCtx) FPToInt(a *Term, signed bool, w int) *Term {
	if a.Op == OConst {
		var f float64
		if a.S.K == SFP32 {
			f = float64(a.F32())
		} else {
			f = a.F64()
		}
		if signed {
			return BVC(w, uint64(int64(f)))
		}
		return BVC(w, uint64(f))
	}
	if signed {
		return c.mk(OFPToSBV, BV(w), w, 0, a)
	}
	return c.mk(OFPToUBV, BV(w), w, 0, a)
}

// ---------- printing ----------

func constSMT(t *Term) string {
	switch t.S.K {
	case SBool:
		if t.C != 0 {
			return "true"
		}
		return "false"
	case SBV:
		if t.S.W%4 == 0 {
			return fmt.Sprintf("#x%0*x", t.S.W/4, t.C)
		}
		return fmt.Sprintf("#b%0*b", t.S.W, t.C)
	case SFP32:
		b := uint32(t.C)
		return fmt.Sprintf("(fp #b%01b #b%08b #b%023b)", b>>31, (b>>23)&0xff, b&0x7fffff)
	case SFP64:
		b := t.C
		return fmt.Sprintf("(fp #b%01b #b%011b #b%052b)", b>>63, (b>>52)&0x7ff, b&((1<<52)-1))
	}
	panic("constSMT")
}

func smtVarName(n string) string { return "|" + n + "|" }

func refSMT(t *Term) string {
	switch t.Op {
	case OConst:
		return constSMT(t)
	case OVar, OTable:
		return smtVarName(t.Name)
	}
	return fmt.Sprintf("t%d", t.ID)
}

func bodySMT(t *Term) string {
	var sb strings.Builder
	switch t.Op {
	case OExtract:
		fmt.Fprintf(&sb, "((_ extract %d %d) %s)", t.P0, t.P1, refSMT(t.Args[0]))
	case OZExt:
		fmt.Fprintf(&sb, "((_ zero_extend %d) %s)", t.P0, refSMT(t.Args[0]))
	case OSExt:
		fmt.Fprintf(&sb, "((_ sign_extend %d) %s)", t.P0, refSMT(t.Args[0]))
	case OFPFromSBV:
		fmt.Fprintf(&sb, "((_ to_fp %s) RNE %s)", fpIdx(t.S), refSMT(t.Args[0]))
	case OFPFromUBV:
		fmt.Fprintf(&sb, "((_ to_fp_unsigned %s) RNE %s)", fpIdx(t.S), refSMT(t.Args[0]))
	case OFPToFP:
		fmt.Fprintf(&sb, "((_ to_fp %s) RNE %s)", fpIdx(t.S), refSMT(t.Args[0]))
	case OFPToSBV:
		fmt.Fprintf(&sb, "((_ fp.to_sbv %d) RTZ %s)", t.P0, refSMT(t.Args[0]))
	case OFPToUBV:
		fmt.Fprintf(&sb, "((_ fp.to_ubv %d) RTZ %s)", t.P0, refSMT(t.Args[0]))
	default:
		n, ok := opNames[t.Op]
		if !ok {
			panic(fmt.Sprintf("no smt name for op %d", t.Op))
		}
		sb.WriteString("(")
		sb.WriteString(n)
		for _, a := range t.Args {
			sb.WriteString(" ")
			sb.WriteString(refSMT(a))
		}
		sb.WriteString(")")
	}
	return sb.String()
}

func fpIdx(s Sort) string {
	if s.K == SFP32 {
		return "8 24"
	}
	return "11 53"
}

// ---------- evaluation under a model ----------

type Model map[string]uint64 // var name -> bits

func EvalTerm(t *Term, m Model, memo map[*Term]uint64) uint64 {
	if t.Op == OConst {
		return t.C
	}
	if v, ok := memo[t]; ok {
		return v
	}
	var r uint64
	a := func(i int) uint64 { return EvalTerm(t.Args[i], m, memo) }
	sa := func(i int) int64 {
		v := a(i)
		w := t.Args[i].S.W
		if w < 64 && v&(1<<uint(w-1)) != 0 {
			v |= ^maskW(w)
		}
		return int64(v)
	}
	b2u := func(b bool) uint64 {
		if b {
			return 1
		}
		return 0
	}
	f := func(i int) float64 {
		if t.Args[i].S.K == SFP32 {
			return float64(math.Float32frombits(uint32(a(i))))
		}
		return math.Float64frombits(a(i))
	}
	mkf := func(s Sort, v float64) uint64 {
		if s.K == SFP32 {
			return uint64(math.Float32bits(float32(v)))
		}
		return math.Float64bits(v)
	}
	w := t.S.W
	switch t.Op {
	case OVar:
		r = m[t.Name]
	case ONot:
		r = 1 - a(0)
	case OAnd:
		r = a(0) & a(1)
	case OOr:
		r = a(0) | a(1)
	case OIte:
		if a(0) != 0 {
			r = a(1)
		} else {
			r = a(2)
		}
	case OEq:
		r = b2u(a(0) == a(1))
	case OBVNot:
		r = ^a(0)
	case OBVNeg:
		r = -a(0)
	case OBVAnd:
		r = a(0) & a(1)
	case OBVOr:
		r = a(0) | a(1)
	case OBVXor:
		for i := range t.Args {
			r ^= a(i)
		}
	case OBVAdd:
		r = a(0) + a(1)
	case OBVSub:
		r = a(0) - a(1)
	case OBVMul:
		r = a(0) * a(1)
	case OBVUDiv:
		if a(1) == 0 {
			r = ^uint64(0)
		} else {
			r = a(0) / a(1)
		}
	case OBVURem:
		if a(1) == 0 {
			r = a(0)
		} else {
			r = a(0) % a(1)
		}
	case OBVSDiv:
		x, y := sa(0), sa(1)
		if y == 0 {
			if x < 0 {
				r = 1
			} else {
				r = ^uint64(0)
			}
		} else if y == -1 {
			r = uint64(-x)
		} else {
			r = uint64(x / y)
		}
	case OBVSRem:
		x, y := sa(0), sa(1)
		if y == 0 {
			r = uint64(x)
		} else if y == -1 {
			r = 0
		} else {
			r = uint64(x % y)
		}
	case OBVShl:
		if a(1) >= uint64(w) {
			r = 0
		} else {
			r = a(0) << a(1)
		}
	case OBVLshr:
		if a(1) >= uint64(w) {
			r = 0
		} else {
			r = a(0) >> a(1)
		}
	case OBVAshr:
		s := a(1)
		if s >= uint64(w) {
			s = uint64(w - 1)
		}
		r = uint64(sa(0) >> s)
	case OBVUlt:
		r = b2u(a(0) < a(1))
	case OBVUle:
		r = b2u(a(0) <= a(1))
	case OBVSlt:
		r = b2u(sa(0) < sa(1))
	case OBVSle:
		r = b2u(sa(0) <= sa(1))
	case OExtract:
		r = a(0) >> uint(t.P1)
	case OZExt:
		r = a(0)
	case OSExt:
		r = uint64(sa(0))
	case OConcat:
		r = a(0)<<uint(t.Args[1].S.W) | a(1)
	case OSelect:
		tb := t.Args[0].Tab
		i := a(1)
		if tb != nil && i < uint64(len(tb.Data)) {
			r = tb.Data[i]
		}
	case OFPAdd:
		if t.S.K == SFP32 {
			r = uint64(math.Float32bits(float32(f(0)) + float32(f(1))))
		} else {
			r = mkf(t.S, f(0)+f(1))
		}
	case OFPSub:
		if t.S.K == SFP32 {
			r = uint64(math.Float32bits(float32(f(0)) - float32(f(1))))
		} else {
			r = mkf(t.S, f(0)-f(1))
		}
	case OFPMul:
		if t.S.K == SFP32 {
			r = uint64(math.Float32bits(float32(f(0)) * float32(f(1))))
		} else {
			r = mkf(t.S, f(0)*f(1))
		}
	case OFPDiv:
		if t.S.K == SFP32 {
			r = uint64(math.Float32bits(float32(f(0)) / float32(f(1))))
		} else {
			r = mkf(t.S, f(0)/f(1))
		}
	case OFPNeg:
		r = mkf(t.S, -f(0))
	case OFPAbs:
		r = mkf(t.S, math.Abs(f(0)))
	case OFPLt:
		r = b2u(f(0) < f(1))
	case OFPLe:
		r = b2u(f(0) <= f(1))
	case OFPEq:
		r = b2u(f(0) == f(1))
	case OFPIsNaN:
		r = b2u(f(0) != f(0))
	case OFPIsInf:
		r = b2u(math.IsInf(f(0), 0))
	case OFPFromSBV:
		if t.S.K == SFP32 {
			r = uint64(math.Float32bits(float32(sa(0))))
		} else {
			r = math.Float64bits(float64(sa(0)))
		}
	case OFPFromUBV:
		if t.S.K == SFP32 {
			r = uint64(math.Float32bits(float32(a(0))))
		} else {
			r = math.Float64bits(float64(a(0)))
		}
	case OFPToFP:
		r = mkf(t.S, f(0))
	case OFPToSBV:
		r = uint64(int64(f(0)))
	case OFPToUBV:
		r = uint64(f(0))
	case OFPRound:
		r = mkf(t.S, math.Round(f(0)))
	case OFPSqrt:
		if t.S.K == SFP32 {
			r = uint64(math.Float32bits(float32(math.Sqrt(f(0)))))
		} else {
			r = mkf(t.S, math.Sqrt(f(0)))
		}
	default:
		panic(fmt.Sprintf("eval: op %d", t.Op))
	}
	switch t.S.K {
	case SBV:
		r &= maskW(t.S.W)
	case SBool:
		r &= 1
	case SFP32:
		r &= 0xffffffff
	}
	memo[t] = r
	return r
}

// CollectVars returns the variables (not tables) occurring in the given terms.
func CollectVars(ts []*Term) []*Term {
	seen := map[*Term]bool{}
	var out []*Term
	var walk func(t *Term)
	walk = func(t *Term) {
		if t.Op == OConst || seen[t] {
			return
		}
		seen[t] = true
		if t.Op == OVar {
			out = append(out, t)
			return
		}
		for _, a := range t.Args {
			walk(a)
		}
	}
	for _, t := range ts {
		walk(t)
	}
	return out
}

func TermSize(ts ...*Term) int {
	seen := map[*Term]bool{}
	var walk func(t *Term)
	walk = func(t *Term) {
		if t.Op == OConst || seen[t] {
			return
		}
		seen[t] = true
		for _, a := range t.Args {
			walk(a)
		}
	}
	for _, t := range ts {
		walk(t)
	}
	return len(seen)
}
