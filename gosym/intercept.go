package main

import (
	"fmt"
	"os"
	"go/types"
	"strings"

	"golang.org/x/tools/go/ssa"
)

func lastName(full string) string {
	if i := strings.LastIndex(full, "."); i >= 0 {
		return full[i+1:]
	}
	return full
}

func strArg(v Value) string {
	s, ok := v.(*Str)
	if !ok || s.Sym {
		return "?"
	}
	return s.S
}

func (ex *Exec) nondet(st *State, kind string, name string, s Sort) *Term {
	n := len(st.nondets)
	vn := fmt.Sprintf("nd%d_%s", n, name)
	t := ex.ctx.Var(vn, s)
	st.nondets = append(st.nondets, NondetRec{Kind: kind, Name: vn, T: t})
	return t
}

var nondetKinds = map[string]Sort{
	"nondetU64": BV(64), "nondetU32": BV(32), "nondetU16": BV(16), "nondetU8": BV(8),
	"nondetI64": BV(64), "nondetI32": BV(32), "nondetI16": BV(16), "nondetI8": BV(8),
	"nondetInt": BV(64), "nondetBool": BoolSort, "nondetF32": FP32Sort, "nondetF64": FP64Sort,
	"nondetRune": BV(32),
}

// intercept handles harness primitives, environment stubs and natively modelled
// library functions. handled=false means: interpret the function body.
func (ex *Exec) intercept(st *State, th *Thread, f *Frame, fn *ssa.Function, args []Value, call *ssa.Call, isDefer bool) ([]*State, bool) {
	full := fn.String()
	name := lastName(full)
	c := ex.ctx
	ret := func(v Value) ([]*State, bool) {
		ex.setResult(f, call, isDefer, v)
		return nil, true
	}
	// ---- harness primitives (body-less functions in the harness package) ----
	if len(fn.Blocks) == 0 || strings.HasPrefix(name, "verif") || strings.HasPrefix(name, "nondet") {
		if s, ok := nondetKinds[name]; ok {
			nm := "v"
			if len(args) > 0 {
				nm = strArg(args[0])
			}
			return ret(ex.nondet(st, name, nm, s))
		}
		switch name {
		case "verifAssume":
			cond := args[0].(*Term)
			if cond.Op == OConst && cond.C == 0 {
				ex.rep.AssumePruned++
				st.ended = true
				return nil, true
			}
			// lazy: no solver call here; an unsatisfiable assumption is caught by the
			// feasibility check at the end of the path (no path completes, no reach point)
			if ok, have := ex.modelHolds(st, cond); !have || !ok {
				st.model = nil
			}
			ex.addPC(st, cond)
			return ret(nil)
		case "verifAssert":
			cond := args[0].(*Term)
			msg := strArg(args[1])
			ex.checkAssert(st, f, cond, msg)
			return ret(nil)
		case "verifReach":
			tag := strArg(args[0])
			st.reached = append(st.reached, tag)
			if !ex.reachSeen[tag] {
				// vacuity witness: the reach point counts only if the path is feasible here
				ex.sol.Purpose = "reachability witness " + tag
				if ex.pathFeasible(st) {
					if ex.reachSeen == nil {
						ex.reachSeen = map[string]bool{}
					}
					ex.reachSeen[tag] = true
					ex.rep.Reached[tag]++
				}
			}
			return ret(nil)
		case "verifNote":
			st.notes = append(st.notes, strArg(args[0]))
			return ret(nil)
		case "verifSplit":
			return ex.verifSplit(st, th, f, args, call, isDefer), true
		case "verifIsSymbolic":
			t, ok := args[0].(*Term)
			return ret(BoolC(ok && t.Op != OConst))
		case "verifNoMerge":
			return ret(nil)
		case "verifShared":
			if p, ok := args[0].(Ptr); ok {
				st.shared = append(st.shared, p)
			}
			return ret(nil)
		case "verifJoinAll":
			// scheduling guarantees all other threads are done when this executes
			return ret(nil)
		case "verifNative":
			return ret(FalseT)
		case "verifQuick":
			return ret(BoolC(ex.cfg.Tier != "thorough"))
		case "verifSeed":
			return ret(BVC(64, ex.cfg.Seed))
		case "verifAnd":
			return ret(c.And(args[0].(*Term), args[1].(*Term)))
		case "verifOr":
			return ret(c.Or(args[0].(*Term), args[1].(*Term)))
		case "verifIte":
			return ret(c.Ite(args[0].(*Term), args[1].(*Term), args[2].(*Term)))
		}
	}
	pkg := ""
	if fn.Pkg != nil {
		pkg = fn.Pkg.Pkg.Path()
	}
	if name == "init" && fn.Signature.Recv() == nil && !strings.HasPrefix(pkg, modPath) {
		return ret(nil) // initialisers of non-module packages are not run
	}
	switch pkg {
	case "github.com/seekerror/logw":
		ex.rep.Stubs["logw.* (no-op)"] = true
		return ret(zeroResults(fn))
	case "math/bits":
		ex.rep.Stubs["math/bits."+name+" (exact bit-vector model)"] = true
		switch name {
		case "OnesCount64", "OnesCount32", "OnesCount16", "OnesCount8", "OnesCount":
			return ret(ex.popcount(args[0].(*Term)))
		case "TrailingZeros64", "TrailingZeros32", "TrailingZeros16", "TrailingZeros8", "TrailingZeros":
			return ret(ex.trailingZeros(args[0].(*Term)))
		case "LeadingZeros64", "LeadingZeros32", "LeadingZeros16", "LeadingZeros8", "LeadingZeros":
			x := args[0].(*Term)
			return ret(c.BVSub(BVC(64, uint64(x.S.W)), ex.bitLen(x)))
		case "Len64", "Len32", "Len16", "Len8", "Len":
			return ret(ex.bitLen(args[0].(*Term)))
		}
	case "math":
		switch name {
		case "Round":
			return ret(c.FPUn(OFPRound, args[0].(*Term)))
		case "Sqrt":
			return ret(c.FPUn(OFPSqrt, args[0].(*Term)))
		case "Abs":
			return ret(c.FPUn(OFPAbs, args[0].(*Term)))
		case "IsNaN":
			return ret(c.FPIsNaN(args[0].(*Term)))
		case "IsInf":
			x := args[0].(*Term)
			sg := args[1].(*Term)
			if sg.Op != OConst {
				unsupported("math.IsInf with symbolic sign")
			}
			inf := c.FPIsInf(x)
			switch {
			case sg.SInt() > 0:
				return ret(c.And(inf, c.fpbin(OFPLt, FP64C(0), x)))
			case sg.SInt() < 0:
				return ret(c.And(inf, c.fpbin(OFPLt, x, FP64C(0))))
			}
			return ret(inf)
		}
	case "sync":
		switch full {
		case "(*sync.Mutex).Lock", "(*sync.Mutex).Unlock", "(*sync.RWMutex).Lock", "(*sync.RWMutex).Unlock", "(*sync.RWMutex).RLock", "(*sync.RWMutex).RUnlock":
			return ex.mutexOp(st, th, f, name, args, call, isDefer), true
		case "(*sync.WaitGroup).Add", "(*sync.WaitGroup).Done", "(*sync.WaitGroup).Wait":
			return ex.waitGroupOp(st, th, f, name, args, call, isDefer), true
		}
	case "sync/atomic":
		return ex.atomicOp(st, th, f, fn, full, args, call, isDefer)
	}
	if h, ok := extraIntercepts[full]; ok {
		return h(ex, st, th, f, fn, args, call, isDefer)
	}
	return nil, false
}

type interceptFn func(ex *Exec, st *State, th *Thread, f *Frame, fn *ssa.Function, args []Value, call *ssa.Call, isDefer bool) ([]*State, bool)

var extraIntercepts = map[string]interceptFn{}

func (ex *Exec) checkAssert(st *State, f *Frame, cond *Term, msg string) {
	if cond.Op == OConst && cond.C != 0 {
		ex.rep.Trivial++
		return
	}
	ex.rep.Asserts++
	if sz := TermSize(cond); sz > ex.rep.MaxTermSize {
		ex.rep.MaxTermSize = sz
	}
	neg := ex.ctx.Not(cond)
	if os.Getenv("GOSYM_DEBUG_ASSERT") != "" {
		fmt.Fprintf(os.Stderr, "ASSERT %q: %s\n", msg, dumpTerm(cond, 3))
	}
	q := append(append([]*Term{}, st.pc...), neg)
	var extraVars []*Term
	for _, n := range st.nondets {
		extraVars = append(extraVars, n.T)
	}
	ex.sol.Purpose = "assert: " + msg
	r, m := ex.sol.Check(q, true, extraVars)
	switch r {
	case Unsat:
		ex.rep.Proven++
	case Sat:
		ex.recordViolation(st, "assert", msg, ex.site(f), m)
	default:
		ex.rep.Unknowns = append(ex.rep.Unknowns, fmt.Sprintf("assertion %q undecided (%s) at %s", msg, ex.sol.LastErr, ex.site(f)))
	}
	// continue under the assumption that the assertion holds (lazily: an always-failing
	// assertion makes the rest of the path infeasible, which the final check detects)
	if ok, have := ex.modelHolds(st, cond); !have || !ok {
		st.model = nil
	}
	ex.addPC(st, cond)
}

// verifSplit(v, lo, hi): case split of v into constants.
func (ex *Exec) verifSplit(st *State, th *Thread, f *Frame, args []Value, call *ssa.Call, isDefer bool) []*State {
	v := args[0].(*Term)
	lo, hi := args[1].(*Term), args[2].(*Term)
	if lo.Op != OConst || hi.Op != OConst {
		unsupported("verifSplit bounds must be constant")
	}
	if v.Op == OConst {
		ex.setResult(f, call, isDefer, v)
		return nil
	}
	idx := st.nsplit
	st.nsplit++
	// task-level split: forced choice from the prefix, or spawn sub tasks
	if idx < len(ex.cfg.SplitPrefix) {
		k := ex.cfg.SplitPrefix[idx]
		cnd := ex.ctx.Eq(v, BVC(v.S.W, k))
		r, m := ex.feasible(st, cnd)
		if r == Unsat {
			ex.endPath(st, "infeasible-split")
			return nil
		}
		ex.addPC(st, cnd)
		st.model = m
		st.splits = append(st.splits, k)
		ex.setResult(f, call, isDefer, BVC(v.S.W, k))
		return nil
	}
	if ex.cfg.SplitPrefix != nil && idx == len(ex.cfg.SplitPrefix) && len(st.pc) >= 0 && ex.splitTasks {
		for k := lo.C; k <= hi.C; k++ {
			cnd := ex.ctx.Eq(v, BVC(v.S.W, k))
			if r, _ := ex.feasible(st, cnd); r == Unsat {
				continue
			}
			ex.rep.SubTasks = append(ex.rep.SubTasks, append(append([]uint64{}, ex.cfg.SplitPrefix...), k))
		}
		st.ended = true // not a path: replaced by sub tasks
		return nil
	}
	var outs []*State
	for k := lo.C; k <= hi.C; k++ {
		cnd := ex.ctx.Eq(v, BVC(v.S.W, k))
		r, m := ex.feasible(st, cnd)
		if r == Unsat {
			continue
		}
		ns := st.clone()
		ex.addPC(ns, cnd)
		ns.model = m
		ns.splits = append(ns.splits, k)
		nf := ns.thread().top()
		ex.setResult(nf, call, isDefer, BVC(v.S.W, k))
		outs = append(outs, ns)
	}
	ex.rep.Forks += len(outs)
	if len(outs) == 0 {
		ex.endPath(st, "infeasible-split")
		return nil
	}
	*st = *outs[0]
	return outs[1:]
}

func (ex *Exec) popcount(x *Term) *Term {
	c := ex.ctx
	if x.Op == OConst {
		n := 0
		for v := x.C; v != 0; v &= v - 1 {
			n++
		}
		return BVC(64, uint64(n))
	}
	// parallel bit count on 64 bits
	v := c.ZExt(64-x.S.W, x)
	k := func(h uint64) *Term { return BVC(64, h) }
	v = c.BVSub(v, c.BVAnd(c.BVLshr(v, k(1)), k(0x5555555555555555)))
	v = c.BVAdd(c.BVAnd(v, k(0x3333333333333333)), c.BVAnd(c.BVLshr(v, k(2)), k(0x3333333333333333)))
	v = c.BVAnd(c.BVAdd(v, c.BVLshr(v, k(4))), k(0x0f0f0f0f0f0f0f0f))
	v = c.BVAdd(v, c.BVLshr(v, k(8)))
	v = c.BVAdd(v, c.BVLshr(v, k(16)))
	v = c.BVAdd(v, c.BVLshr(v, k(32)))
	return c.BVAnd(v, k(0x7f))
}

func (ex *Exec) trailingZeros(x *Term) *Term {
	c := ex.ctx
	w := x.S.W
	if x.Op == OConst {
		n := 0
		for n < w && x.C&(1<<uint(n)) == 0 {
			n++
		}
		return BVC(64, uint64(n))
	}
	// tz(1 << s) = s for s < w
	if x.Op == OBVShl && x.Args[0].Op == OConst && x.Args[0].C == 1 {
		if mx, ok := maxU(x.Args[1]); ok && mx < uint64(w) {
			return c.ZExt(64-w, x.Args[1])
		}
	}
	r := BVC(64, uint64(w))
	for i := w - 1; i >= 0; i-- {
		bit := c.Eq(c.Extract(i, i, x), BVC(1, 1))
		r = c.Ite(bit, BVC(64, uint64(i)), r)
	}
	return r
}

func (ex *Exec) bitLen(x *Term) *Term {
	c := ex.ctx
	w := x.S.W
	if x.Op == OConst {
		n := 0
		for v := x.C; v != 0; v >>= 1 {
			n++
		}
		return BVC(64, uint64(n))
	}
	r := BVC(64, 0)
	for i := 0; i < w; i++ {
		bit := c.Eq(c.Extract(i, i, x), BVC(1, 1))
		r = c.Ite(bit, BVC(64, uint64(i+1)), r)
	}
	return r
}

var _ = types.Typ

func dumpTerm(t *Term, depth int) string {
	if t.Op == OConst {
		return constSMT(t)
	}
	if t.Op == OVar {
		return t.Name
	}
	if depth == 0 {
		return fmt.Sprintf("t%d{%d}", t.ID, TermSize(t))
	}
	n := opNames[t.Op]
	if n == "" {
		n = fmt.Sprintf("op%d", t.Op)
	}
	s := "(" + n
	for i, a := range t.Args {
		if i > 40 {
			s += " ..."
			break
		}
		s += " " + dumpTerm(a, depth-1)
	}
	return s + ")"
}
