package main

import (
	"fmt"
	"go/types"
	"strings"

	"golang.org/x/tools/go/ssa"
)

func (ex *Exec) prepareCall(st *State, f *Frame, c *ssa.CallCommon) (Value, []Value) {
	var args []Value
	var fnv Value
	if c.IsInvoke() {
		recv, _ := ex.operand(st, f, c.Value).(*Iface)
		if recv == nil {
			return nil, nil
		}
		fn := ex.p.prog.LookupMethod(recv.T, c.Method.Pkg(), c.Method.Name())
		if fn == nil {
			unsupported("no method %v on %v", c.Method.Name(), recv.T)
		}
		fnv = &Closure{Fn: fn}
		args = append(args, recv.V)
	} else {
		fnv = ex.operand(st, f, c.Value)
	}
	for _, a := range c.Args {
		args = append(args, ex.operand(st, f, a))
	}
	return fnv, args
}

// setResult stores a call result and advances (unless the call was deferred).
func (ex *Exec) setResult(f *Frame, call *ssa.Call, isDefer bool, v Value) {
	if isDefer {
		return // caller re-executes RunDefers
	}
	if call != nil {
		f.set(call, v)
	}
	f.ip++
}

func (ex *Exec) invoke(st *State, th *Thread, f *Frame, fnv Value, args []Value, call *ssa.Call, isDefer bool) []*State {
	cl, _ := fnv.(*Closure)
	if cl == nil {
		ex.doPanic(st, "call of nil function / method on nil interface")
		return nil
	}
	if cl.B != nil {
		return ex.builtin(st, th, f, cl.B.Name(), args, call, isDefer)
	}
	if cl.Native != "" {
		return ex.nativeClosure(st, th, f, cl, args, call, isDefer)
	}
	fn := cl.Fn
	if len(ex.cfg.Replace) > 0 {
		if rn, ok := ex.cfg.Replace[fn.String()]; ok {
			hp := ex.p.pkgs[ex.cfg.HarnessPkg]
			var rf *ssa.Function
			if hp != nil {
				rf = hp.Func(rn)
			}
			if rf == nil {
				unsupported("replacement %s for %s not found", rn, fn)
			}
			ex.rep.Stubs[fn.String()+" summarised by its specification "+rn+" (proved by the lemma obligations of this check)"] = true
			return ex.enter(st, th, rf, args, nil, call, isDefer)
		}
	}
	if extra, handled := ex.intercept(st, th, f, fn, args, call, isDefer); handled {
		return extra
	}
	if len(fn.Blocks) == 0 {
		unsupported("call of external function %v", fn)
	}
	return ex.enter(st, th, fn, args, cl.Free, call, isDefer)
}

// enter pushes a frame for fn and (policy permitting) runs it to completion in a
// nested exploration so that all its paths can be merged at the return.
func (ex *Exec) enter(st *State, th *Thread, fn *ssa.Function, args, free []Value, call *ssa.Call, isDefer bool) []*State {
	depth := len(th.stack)
	var retTo ssa.Value
	if call != nil {
		retTo = call
	}
	nf := ex.pushFrame(st, th, fn, args, free, retTo)
	nf.isDeferCall = isDefer
	if !ex.cfg.MergeCalls || len(st.threads) != 1 || ex.isNoMerge(fn) || ex.initMode {
		return nil
	}
	stop := func(s *State) bool {
		t := s.thread()
		return t.panicking == nil && len(t.stack) <= depth
	}
	ex.depth++
	res := ex.explore([]*State{st.cloneShallow()}, stop)
	ex.depth--
	merged := ex.mergeStates(res)
	if len(merged) == 0 {
		st.ended = true
		return nil
	}
	*st = *merged[0]
	return merged[1:]
}

func (ex *Exec) builtin(st *State, th *Thread, f *Frame, name string, args []Value, call *ssa.Call, isDefer bool) []*State {
	c := ex.ctx
	switch name {
	case "len":
		var r Value
		switch x := args[0].(type) {
		case *Str:
			r = ex.strLen(x)
		case Slice:
			r = BVC(64, uint64(x.Len))
		case MapRef:
			r = ex.mapLen(st, x)
		case ChanRef:
			if x.Obj == 0 {
				r = BVC(64, 0)
			} else {
				r = BVC(64, uint64(len(ex.p.loadObj(st, x.Obj).(*ChanObj).Buf)))
			}
		case *Agg:
			r = BVC(64, uint64(len(x.E)))
		case Ptr:
			n := call.Call.Args[0].Type().Underlying().(*types.Pointer).Elem().Underlying().(*types.Array).Len()
			r = BVC(64, uint64(n))
		default:
			unsupported("len of %T", args[0])
		}
		ex.setResult(f, call, isDefer, r)
	case "cap":
		switch x := args[0].(type) {
		case Slice:
			ex.setResult(f, call, isDefer, BVC(64, uint64(x.Cap)))
		case ChanRef:
			ex.setResult(f, call, isDefer, BVC(64, uint64(ex.p.loadObj(st, x.Obj).(*ChanObj).Cap)))
		default:
			unsupported("cap of %T", args[0])
		}
	case "append":
		s := args[0].(Slice)
		var add []Value
		switch y := args[1].(type) {
		case Slice:
			add = ex.sliceElems(st, y)
		case *Str:
			if y.Sym {
				unsupported("append of symbolic string bytes")
			}
			for i := 0; i < len(y.S); i++ {
				add = append(add, BVC(8, uint64(y.S[i])))
			}
		default:
			unsupported("append arg %T", args[1])
		}
		if len(add) == 0 {
			ex.setResult(f, call, isDefer, s)
			return nil
		}
		if !s.Nil && s.Len+len(add) <= s.Cap {
			arr := ex.load(st, s.Arr).(*Agg)
			na := &Agg{E: make([]Value, len(arr.E))}
			copy(na.E, arr.E)
			copy(na.E[s.Off+s.Len:], add)
			ex.store(st, s.Arr, na)
			ex.setResult(f, call, isDefer, Slice{Arr: s.Arr, Off: s.Off, Len: s.Len + len(add), Cap: s.Cap})
			return nil
		}
		ncap := (s.Len + len(add)) * 2
		if ncap < 4 {
			ncap = 4
		}
		na := &Agg{E: make([]Value, ncap)}
		old := ex.sliceElems(st, s)
		copy(na.E, old)
		copy(na.E[len(old):], add)
		et := call.Call.Args[0].Type().Underlying().(*types.Slice).Elem()
		z := zeroValue(et)
		for i := len(old) + len(add); i < ncap; i++ {
			na.E[i] = z
		}
		ex.setResult(f, call, isDefer, Slice{Arr: Ptr{Obj: st.alloc(na)}, Len: len(old) + len(add), Cap: ncap})
	case "copy":
		dst := args[0].(Slice)
		var src []Value
		switch y := args[1].(type) {
		case Slice:
			src = ex.sliceElems(st, y)
		case *Str:
			if y.Sym {
				unsupported("copy from symbolic string")
			}
			for i := 0; i < len(y.S); i++ {
				src = append(src, BVC(8, uint64(y.S[i])))
			}
		}
		n := len(src)
		if dst.Len < n {
			n = dst.Len
		}
		if n > 0 {
			arr := ex.load(st, dst.Arr).(*Agg)
			na := &Agg{E: make([]Value, len(arr.E))}
			copy(na.E, arr.E)
			tmp := append([]Value(nil), src[:n]...)
			copy(na.E[dst.Off:], tmp)
			ex.store(st, dst.Arr, na)
		}
		ex.setResult(f, call, isDefer, BVC(64, uint64(n)))
	case "delete":
		ex.mapDelete(st, args[0].(MapRef), args[1])
		ex.setResult(f, call, isDefer, nil)
	case "print", "println":
		ex.setResult(f, call, isDefer, nil)
	case "recover":
		ex.setResult(f, call, isDefer, (*Iface)(nil))
	case "ssa:wrapnilchk":
		if p, ok := args[0].(Ptr); ok && p.Obj == 0 {
			ex.doPanic(st, "nil pointer dereference (wrapper)")
			return nil
		}
		ex.setResult(f, call, isDefer, args[0])
	case "close":
		return ex.chanClose(st, th, f, args[0], call, isDefer)
	case "min", "max":
		r := args[0].(*Term)
		sg := isSigned(call.Call.Args[0].Type())
		for _, a := range args[1:] {
			y := a.(*Term)
			var lt *Term
			switch {
			case r.S.K != SBV:
				lt = c.fpbin(OFPLt, y, r)
			case sg:
				lt = c.Slt(y, r)
			default:
				lt = c.Ult(y, r)
			}
			if name == "max" {
				lt = c.Not(lt)
				if r.S.K == SBV {
					if sg {
						lt = c.Slt(r, y)
					} else {
						lt = c.Ult(r, y)
					}
				} else {
					lt = c.fpbin(OFPLt, r, y)
				}
			}
			r = c.Ite(lt, y, r)
		}
		ex.setResult(f, call, isDefer, r)
	default:
		unsupported("builtin %s", name)
	}
	return nil
}

// redirect calls an interpreted replacement function instead of the original.
func (ex *Exec) redirect(st *State, th *Thread, name string, args []Value, call *ssa.Call, isDefer bool) []*State {
	fn := ex.rtFunc(name)
	if fn == nil {
		unsupported("runtime replacement %s not loaded", name)
	}
	ex.rep.Stubs["verifrt."+name] = true
	return ex.enter(st, th, fn, args, nil, call, isDefer)
}

func (ex *Exec) rtFunc(name string) *ssa.Function {
	for path, p := range ex.p.pkgs {
		if strings.HasSuffix(path, "/verifrt") {
			return p.Func(name)
		}
	}
	return nil
}

func zeroResults(fn *ssa.Function) Value {
	r := fn.Signature.Results()
	switch r.Len() {
	case 0:
		return nil
	case 1:
		return zeroValue(r.At(0).Type())
	}
	return zeroValue(r)
}

func fmtErr(format string, a ...interface{}) error { return fmt.Errorf(format, a...) }
