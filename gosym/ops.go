package main

import (
	"fmt"
	"go/token"
	"go/types"
	"unicode/utf8"

	"golang.org/x/tools/go/ssa"
)

func (ex *Exec) binop(st *State, op token.Token, a, b Value, ta, tb types.Type) (Value, []*State, bool) {
	c := ex.ctx
	switch op {
	case token.EQL:
		return ex.valueEq(a, b), nil, true
	case token.NEQ:
		return c.Not(ex.valueEq(a, b)), nil, true
	}
	switch x := a.(type) {
	case *Term:
		y, ok := b.(*Term)
		if !ok {
			unsupported("binop %v on term and %T", op, b)
		}
		switch x.S.K {
		case SBool:
			switch op {
			case token.AND, token.LAND:
				return c.And(x, y), nil, true
			case token.OR, token.LOR:
				return c.Or(x, y), nil, true
			}
		case SFP32, SFP64:
			switch op {
			case token.ADD:
				return c.fpbin(OFPAdd, x, y), nil, true
			case token.SUB:
				return c.fpbin(OFPSub, x, y), nil, true
			case token.MUL:
				return c.fpbin(OFPMul, x, y), nil, true
			case token.QUO:
				return c.fpbin(OFPDiv, x, y), nil, true
			case token.LSS:
				return c.fpbin(OFPLt, x, y), nil, true
			case token.LEQ:
				return c.fpbin(OFPLe, x, y), nil, true
			case token.GTR:
				return c.fpbin(OFPLt, y, x), nil, true
			case token.GEQ:
				return c.fpbin(OFPLe, y, x), nil, true
			}
		case SBV:
			signed := isSigned(ta)
			switch op {
			case token.ADD:
				return c.BVAdd(x, y), nil, true
			case token.SUB:
				return c.BVSub(x, y), nil, true
			case token.MUL:
				return c.BVMul(x, y), nil, true
			case token.AND:
				return c.BVAnd(x, y), nil, true
			case token.OR:
				return c.BVOr(x, y), nil, true
			case token.XOR:
				return c.BVXor(x, y), nil, true
			case token.AND_NOT:
				return c.BVAnd(x, c.BVNot(y)), nil, true
			case token.QUO, token.REM:
				var extra []*State
				if y.Op == OConst {
					if y.C == 0 {
						ex.doPanic(st, "integer divide by zero")
						return nil, nil, false
					}
				} else {
					z := c.Eq(y, BVC(y.S.W, 0))
					r, m := ex.feasible(st, z)
					if r == Unknown {
						ex.rep.Unknowns = append(ex.rep.Unknowns, "divide-by-zero check undecided at "+ex.site(st.thread().top()))
					}
					if r == Sat {
						ps := st.clone()
						ex.addPC(ps, z)
						ps.model = m
						ex.doPanic(ps, "integer divide by zero")
						extra = append(extra, ps)
						nz := c.Not(z)
						r2, m2 := ex.feasible(st, nz)
						if r2 == Unsat {
							*st = *ps
							return nil, nil, false
						}
						ex.addPC(st, nz)
						st.model = m2
					}
				}
				if op == token.QUO {
					if signed {
						return c.BVSDiv(x, y), extra, true
					}
					return c.BVUDiv(x, y), extra, true
				}
				if signed {
					return c.BVSRem(x, y), extra, true
				}
				return c.BVURem(x, y), extra, true
			case token.SHL, token.SHR:
				return ex.shift(st, op, x, y, signed, isSigned(tb))
			case token.LSS:
				if signed {
					return c.Slt(x, y), nil, true
				}
				return c.Ult(x, y), nil, true
			case token.LEQ:
				if signed {
					return c.Sle(x, y), nil, true
				}
				return c.Ule(x, y), nil, true
			case token.GTR:
				if signed {
					return c.Slt(y, x), nil, true
				}
				return c.Ult(y, x), nil, true
			case token.GEQ:
				if signed {
					return c.Sle(y, x), nil, true
				}
				return c.Ule(y, x), nil, true
			}
		}
	case *Str:
		y := b.(*Str)
		switch op {
		case token.ADD:
			if !x.Sym && !y.Sym {
				return mkStr(x.S + y.S), nil, true
			}
			return normStr(append(append([]*Term{}, x.RuneTerms()...), y.RuneTerms()...)), nil, true
		case token.LSS, token.LEQ, token.GTR, token.GEQ:
			if x.Sym || y.Sym {
				unsupported("ordered comparison of symbolic strings")
			}
			var r bool
			switch op {
			case token.LSS:
				r = x.S < y.S
			case token.LEQ:
				r = x.S <= y.S
			case token.GTR:
				r = x.S > y.S
			case token.GEQ:
				r = x.S >= y.S
			}
			return BoolC(r), nil, true
		}
	}
	unsupported("binop %v on %T,%T", op, a, b)
	return nil, nil, false
}

func (ex *Exec) shift(st *State, op token.Token, x, y *Term, signedX, signedY bool) (Value, []*State, bool) {
	c := ex.ctx
	w := x.S.W
	var extra []*State
	if signedY {
		if y.Op == OConst {
			if y.SInt() < 0 {
				ex.doPanic(st, "negative shift amount")
				return nil, nil, false
			}
		} else {
			neg := c.Slt(y, BVC(y.S.W, 0))
			r, m := ex.feasible(st, neg)
			if r == Sat {
				ps := st.clone()
				ex.addPC(ps, neg)
				ps.model = m
				ex.doPanic(ps, "negative shift amount")
				extra = append(extra, ps)
				nn := c.Not(neg)
				r2, m2 := ex.feasible(st, nn)
				if r2 == Unsat {
					*st = *ps
					return nil, nil, false
				}
				ex.addPC(st, nn)
				st.model = m2
			} else if r == Unknown {
				ex.rep.Unknowns = append(ex.rep.Unknowns, "negative-shift check undecided at "+ex.site(st.thread().top()))
			}
		}
	}
	// bring the count to the operand width, saturating
	var cnt *Term
	if y.S.W <= w {
		cnt = c.ZExt(w-y.S.W, y)
	} else {
		big := c.Not(c.Ult(y, BVC(y.S.W, uint64(w))))
		cnt = c.Ite(big, BVC(w, uint64(w)), c.Extract(w-1, 0, y))
	}
	switch {
	case op == token.SHL:
		return c.BVShl(x, cnt), extra, true
	case signedX:
		return c.BVAshr(x, cnt), extra, true
	default:
		return c.BVLshr(x, cnt), extra, true
	}
}

func (ex *Exec) unop(st *State, th *Thread, f *Frame, x *ssa.UnOp) []*State {
	v := ex.operand(st, f, x.X)
	c := ex.ctx
	switch x.Op {
	case token.MUL:
		p, ok := ex.derefCheck(st, v, "load")
		if !ok {
			return nil
		}
		f.set(x, ex.load(st, p))
	case token.NOT:
		f.set(x, c.Not(v.(*Term)))
	case token.SUB:
		t := v.(*Term)
		if t.S.K == SBV {
			f.set(x, c.BVNeg(t))
		} else {
			f.set(x, c.FPNeg(t))
		}
	case token.XOR:
		f.set(x, c.BVNot(v.(*Term)))
	case token.ARROW:
		return ex.chanRecv(st, th, f, x, v)
	default:
		unsupported("unop %v", x.Op)
	}
	f.ip++
	return nil
}

func (ex *Exec) convert(st *State, v Value, from, to types.Type) Value {
	c := ex.ctx
	fu, tu := from.Underlying(), to.Underlying()
	// pointers / unsafe
	if _, ok := v.(Ptr); ok {
		return v
	}
	switch x := v.(type) {
	case *Term:
		if tb, ok := tu.(*types.Basic); ok {
			if tb.Info()&types.IsString != 0 {
				// string(rune)
				r := c.Resize(x, 32, isSigned(from))
				if x.S.W > 32 {
					unsupported("string(int64)")
				}
				return normStr([]*Term{ex.validRune(r)})
			}
			ts, ok := sortOfBasic(tb)
			if !ok {
				if tb.Kind() == types.UnsafePointer {
					unsupported("uintptr -> unsafe.Pointer")
				}
				unsupported("convert to %v", to)
			}
			switch {
			case x.S.K == SBV && ts.K == SBV:
				return c.Resize(x, ts.W, isSigned(from))
			case x.S.K == SBV && (ts.K == SFP32 || ts.K == SFP64):
				return c.FPFromInt(x, isSigned(from), ts)
			case (x.S.K == SFP32 || x.S.K == SFP64) && ts.K == SBV:
				return c.FPToInt(x, isSigned(to), ts.W)
			case (x.S.K == SFP32 || x.S.K == SFP64) && (ts.K == SFP32 || ts.K == SFP64):
				return c.FPConv(x, ts)
			case x.S.K == SBool && ts.K == SBool:
				return x
			}
		}
	case *Str:
		if ts, ok := tu.(*types.Slice); ok {
			eb := ts.Elem().Underlying().(*types.Basic)
			switch eb.Kind() {
			case types.Int32: // []rune
				rs := x.RuneTerms()
				arr := &Agg{E: make([]Value, len(rs))}
				for i, r := range rs {
					arr.E[i] = r
				}
				return Slice{Arr: Ptr{Obj: st.alloc(arr)}, Len: len(rs), Cap: len(rs)}
			case types.Uint8: // []byte
				if x.Sym {
					unsupported("[]byte(symbolic string)")
				}
				arr := &Agg{E: make([]Value, len(x.S))}
				for i := 0; i < len(x.S); i++ {
					arr.E[i] = BVC(8, uint64(x.S[i]))
				}
				return Slice{Arr: Ptr{Obj: st.alloc(arr)}, Len: len(x.S), Cap: len(x.S)}
			}
		}
		if isString(to) {
			return x
		}
	case Slice:
		if isString(to) {
			fs := fu.(*types.Slice)
			eb := fs.Elem().Underlying().(*types.Basic)
			elems := ex.sliceElems(st, x)
			switch eb.Kind() {
			case types.Int32:
				rs := make([]*Term, len(elems))
				for i, e := range elems {
					rs[i] = ex.validRune(e.(*Term))
				}
				return normStr(rs)
			case types.Uint8:
				bs := make([]byte, len(elems))
				for i, e := range elems {
					t := e.(*Term)
					if t.Op != OConst {
						unsupported("string([]byte) with symbolic bytes")
					}
					bs[i] = byte(t.C)
				}
				return mkStr(string(bs))
			}
		}
		if _, ok := tu.(*types.Slice); ok {
			return x
		}
	}
	if types.Identical(fu, tu) {
		return v
	}
	unsupported("convert %T from %v to %v", v, from, to)
	return nil
}

// validRune maps invalid code points to U+FFFD as string(rune) does.
func (ex *Exec) validRune(r *Term) *Term {
	c := ex.ctx
	if r.Op == OConst {
		rr := rune(int32(uint32(r.C)))
		if !utf8.ValidRune(rr) {
			return BVC(32, 0xFFFD)
		}
		return r
	}
	bad := c.Or(c.Not(c.Ule(r, BVC(32, 0x10FFFF))), c.And(c.Ule(BVC(32, 0xD800), r), c.Ule(r, BVC(32, 0xDFFF))))
	return c.Ite(bad, BVC(32, 0xFFFD), r)
}

func (ex *Exec) sliceElems(st *State, s Slice) []Value {
	if s.Nil || s.Len == 0 {
		return nil
	}
	arr := ex.load(st, s.Arr).(*Agg)
	return arr.E[s.Off : s.Off+s.Len]
}

// runeLen returns the UTF-8 length of rune r as a BV64 term.
func (ex *Exec) runeLen(r *Term) *Term {
	c := ex.ctx
	if r.Op == OConst {
		return BVC(64, uint64(utf8.RuneLen(rune(int32(uint32(r.C))))))
	}
	return c.Ite(c.Ult(r, BVC(32, 0x80)), BVC(64, 1),
		c.Ite(c.Ult(r, BVC(32, 0x800)), BVC(64, 2),
			c.Ite(c.Ult(r, BVC(32, 0x10000)), BVC(64, 3), BVC(64, 4))))
}

func (ex *Exec) strLen(s *Str) *Term {
	if !s.Sym {
		return BVC(64, uint64(len(s.S)))
	}
	n := BVC(64, 0)
	for _, r := range s.Runes {
		n = ex.ctx.BVAdd(n, ex.runeLen(r))
	}
	return n
}

func (ex *Exec) strIndex(st *State, s *Str, idx *Term) (Value, []*State, bool) {
	if s.Sym || idx.Op != OConst {
		if !s.Sym {
			// concrete string, symbolic index
			vals := make([]Value, len(s.S))
			for i := range vals {
				vals[i] = BVC(8, uint64(s.S[i]))
			}
			extra, ok := ex.checkIndex(st, idx, len(s.S), "string")
			if !ok {
				return nil, extra, false
			}
			return ex.selectValues(idx, vals, nil), extra, true
		}
		unsupported("byte index into symbolic string")
	}
	if idx.C >= uint64(len(s.S)) {
		ex.doPanic(st, "string index out of range")
		return nil, nil, false
	}
	return BVC(8, uint64(s.S[idx.C])), nil, true
}

// ---- maps ----

func (ex *Exec) mapObj(st *State, m MapRef) *MapObj {
	return ex.p.loadObj(st, m.Obj).(*MapObj)
}

func (ex *Exec) keyEq(a, b Value) *Term {
	// interface keys: compare dynamic values
	return ex.valueEq(a, b)
}

func (ex *Exec) mapLookup(st *State, m MapRef, k Value, elem types.Type) (Value, *Term) {
	zero := zeroValue(elem)
	if m.Obj == 0 {
		return zero, FalseT
	}
	mo := ex.mapObj(st, m)
	val := zero
	found := FalseT
	for i := 0; i < len(mo.E); i++ {
		e := mo.E[i]
		hit := ex.ctx.And(e.Present, ex.keyEq(e.K, k))
		if hit.Op == OConst && hit.C == 0 {
			continue
		}
		nv, ok := ex.mergeValue(hit, e.V, val)
		if !ok {
			unsupported("map lookup merge of %T", e.V)
		}
		val = nv
		found = ex.ctx.Or(found, hit)
	}
	return val, found
}

func (ex *Exec) mapUpdate(st *State, m MapRef, k, v Value) {
	mo := ex.mapObj(st, m)
	ne := make([]MapEntry, 0, len(mo.E)+1)
	any := FalseT
	for _, e := range mo.E {
		hit := ex.ctx.And(e.Present, ex.keyEq(e.K, k))
		if hit.Op == OConst {
			if hit.C != 0 {
				ne = append(ne, MapEntry{K: e.K, V: v, Present: e.Present})
				any = TrueT
			} else {
				ne = append(ne, e)
			}
			continue
		}
		nv, ok := ex.mergeValue(hit, v, e.V)
		if !ok {
			unsupported("map update merge")
		}
		ne = append(ne, MapEntry{K: e.K, V: nv, Present: e.Present})
		any = ex.ctx.Or(any, hit)
	}
	if !(any.Op == OConst && any.C != 0) {
		ne = append(ne, MapEntry{K: k, V: v, Present: ex.ctx.Not(any)})
	}
	st.heap[m.Obj] = &MapObj{E: ne}
}

func (ex *Exec) mapDelete(st *State, m MapRef, k Value) {
	if m.Obj == 0 {
		return
	}
	mo := ex.mapObj(st, m)
	ne := make([]MapEntry, 0, len(mo.E))
	for _, e := range mo.E {
		hit := ex.ctx.And(e.Present, ex.keyEq(e.K, k))
		if hit.Op == OConst && hit.C != 0 {
			continue
		}
		ne = append(ne, MapEntry{K: e.K, V: e.V, Present: ex.ctx.And(e.Present, ex.ctx.Not(hit))})
	}
	st.heap[m.Obj] = &MapObj{E: ne}
}

func (ex *Exec) mapLen(st *State, m MapRef) *Term {
	if m.Obj == 0 {
		return BVC(64, 0)
	}
	n := BVC(64, 0)
	for _, e := range ex.mapObj(st, m).E {
		n = ex.ctx.BVAdd(n, ex.ctx.Ite(e.Present, BVC(64, 1), BVC(64, 0)))
	}
	return n
}

func (ex *Exec) makeIter(st *State, v Value) Value {
	switch x := v.(type) {
	case *Str:
		return &MapIter{IsStr: true, Runes: x.RuneTerms()}
	case MapRef:
		it := &MapIter{}
		if x.Obj != 0 {
			for _, e := range ex.mapObj(st, x).E {
				if e.Present.Op == OConst && e.Present.C == 0 {
					continue
				}
				it.Keys = append(it.Keys, e.K)
				it.Vals = append(it.Vals, e.V)
				it.Pres = append(it.Pres, e.Present)
			}
		}
		return it
	}
	unsupported("range over %T", v)
	return nil
}

func (ex *Exec) iterNext(st *State, f *Frame, x *ssa.Next, it *MapIter) Value {
	tup := x.Type().(*types.Tuple)
	if it.IsStr {
		// key = byte offset, value = rune
		off := BVC(64, 0)
		for i := 0; i < it.Pos; i++ {
			off = ex.ctx.BVAdd(off, ex.runeLen(it.Runes[i]))
		}
		if it.Pos >= len(it.Runes) {
			return &Agg{E: []Value{FalseT, BVC(64, 0), BVC(32, 0)}}
		}
		r := it.Runes[it.Pos]
		nit := *it
		nit.Pos++
		f.set(x.Iter, &nit)
		return &Agg{E: []Value{TrueT, off, r}}
	}
	if it.Pos >= len(it.Keys) {
		return &Agg{E: []Value{FalseT, zeroOrNil(tup.At(1).Type()), zeroOrNil(tup.At(2).Type())}}
	}
	nit := *it
	nit.Pos++
	f.set(x.Iter, &nit)
	return &Agg{E: []Value{TrueT, it.Keys[it.Pos], it.Vals[it.Pos]}}
}

func zeroOrNil(t types.Type) Value {
	if b, ok := t.(*types.Basic); ok && b.Kind() == types.Invalid {
		return nil
	}
	return zeroValue(t)
}

// ---- slices ----

func constInt(v Value) (int, bool) {
	t, ok := v.(*Term)
	if !ok || t.Op != OConst {
		return 0, false
	}
	return int(t.SInt()), true
}

func (ex *Exec) sliceOp(st *State, f *Frame, x *ssa.Slice) []*State {
	base := ex.operand(st, f, x.X)
	get := func(v ssa.Value, def int) int {
		if v == nil {
			return def
		}
		val := ex.operand(st, f, v)
		t := val.(*Term)
		t = ex.ctx.Resize(t, 64, isSigned(v.Type()))
		if t.Op != OConst {
			unsupported("symbolic slice bound at %s", ex.site(f))
		}
		return int(int64(t.C))
	}
	switch b := base.(type) {
	case *Str:
		if b.Sym {
			// allow slicing at rune boundaries when the prefix runes are constants
			lo := get(x.Low, 0)
			hiGiven := x.High != nil
			hi := -1
			if hiGiven {
				hi = get(x.High, 0)
			}
			// map byte offsets to rune offsets
			pos := 0
			ri := 0
			loR, hiR := -1, -1
			for {
				if pos == lo && loR < 0 {
					loR = ri
				}
				if hiGiven && pos == hi && hiR < 0 {
					hiR = ri
				}
				if ri >= len(b.Runes) {
					break
				}
				r := b.Runes[ri]
				if r.Op != OConst {
					if loR >= 0 && !hiGiven {
						break
					}
					unsupported("byte slicing across symbolic runes")
				}
				pos += utf8.RuneLen(rune(int32(uint32(r.C))))
				ri++
			}
			if !hiGiven {
				hiR = len(b.Runes)
			}
			if loR < 0 || hiR < 0 || loR > hiR {
				unsupported("symbolic string slice bounds")
			}
			f.set(x, normStr(b.Runes[loR:hiR]))
			f.ip++
			return nil
		}
		lo := get(x.Low, 0)
		hi := get(x.High, len(b.S))
		if lo < 0 || hi > len(b.S) || lo > hi {
			ex.doPanic(st, fmt.Sprintf("slice bounds out of range [%d:%d] with length %d", lo, hi, len(b.S)))
			return nil
		}
		f.set(x, mkStr(b.S[lo:hi]))
	case Slice:
		lo := get(x.Low, 0)
		hi := get(x.High, b.Len)
		mx := get(x.Max, b.Cap)
		if lo < 0 || hi > b.Cap || lo > hi || mx > b.Cap || hi > mx {
			ex.doPanic(st, fmt.Sprintf("slice bounds out of range [%d:%d:%d] with capacity %d", lo, hi, mx, b.Cap))
			return nil
		}
		if b.Nil {
			f.set(x, b)
		} else {
			f.set(x, Slice{Arr: b.Arr, Off: b.Off + lo, Len: hi - lo, Cap: mx - lo})
		}
	case Ptr: // *array
		if b.Obj == 0 {
			ex.doPanic(st, "nil pointer dereference (slice)")
			return nil
		}
		n := int(x.X.Type().Underlying().(*types.Pointer).Elem().Underlying().(*types.Array).Len())
		lo := get(x.Low, 0)
		hi := get(x.High, n)
		mx := get(x.Max, n)
		if lo < 0 || hi > n || lo > hi || mx > n || hi > mx {
			ex.doPanic(st, "slice bounds out of range")
			return nil
		}
		f.set(x, Slice{Arr: b, Off: lo, Len: hi - lo, Cap: mx - lo})
	default:
		unsupported("slice of %T", base)
	}
	f.ip++
	return nil
}

func (ex *Exec) typeAssert(st *State, f *Frame, x *ssa.TypeAssert) []*State {
	v := ex.operand(st, f, x.X)
	iv, _ := v.(*Iface)
	ok := false
	var res Value
	if iv != nil {
		if types.IsInterface(x.AssertedType) {
			it := x.AssertedType.Underlying().(*types.Interface)
			ok = types.Implements(iv.T, it)
			if ok {
				res = iv
			}
		} else {
			ok = types.Identical(iv.T, x.AssertedType)
			if ok {
				res = iv.V
			}
		}
	}
	if x.CommaOk {
		if !ok {
			res = zeroValue(x.AssertedType)
		}
		f.set(x, &Agg{E: []Value{res, BoolC(ok)}})
		f.ip++
		return nil
	}
	if !ok {
		ex.doPanic(st, fmt.Sprintf("interface conversion: not %v", x.AssertedType))
		return nil
	}
	f.set(x, res)
	f.ip++
	return nil
}
