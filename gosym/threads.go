package main

import (
	"fmt"
	"go/types"
	"strings"

	"golang.org/x/tools/go/ssa"
)

// Threads. A state owns a set of threads; exactly one (st.cur) runs at a time.
// Visible operations (channel ops, select, mutex, sync/atomic, go, thread exit)
// are scheduling points at which the executor forks over the choice of the next
// thread to run (bounded number of preemptive switches per path).

func (ex *Exec) spawn(st *State, fnv Value, args []Value) {
	cl, _ := fnv.(*Closure)
	if cl == nil || cl.Fn == nil {
		unsupported("go on non-function")
	}
	th := &Thread{id: len(st.threads)}
	st.threads = append(st.threads, th)
	ex.pushFrame(st, th, cl.Fn, args, cl.Free, nil)
}

func (ex *Exec) atomicOp(st *State, th *Thread, f *Frame, fn *ssa.Function, full string, args []Value, call *ssa.Call, isDefer bool) ([]*State, bool) {
	name := lastName(full)
	known := false
	for _, p := range []string{"Load", "Store", "Add", "Swap", "CompareAndSwap", "And", "Or"} {
		if strings.HasPrefix(name, p) {
			known = true
		}
	}
	if !strings.HasPrefix(full, "sync/atomic.") || !known {
		return nil, false // methods of atomic.Bool etc and helpers: interpret, they bottom out here
	}
	ex.rep.Stubs["sync/atomic."+name+" (sequentially consistent)"] = true
	ret := func(v Value) ([]*State, bool) {
		ex.setResult(f, call, isDefer, v)
		return nil, true
	}
	p, ok := args[0].(Ptr)
	if !ok || p.Obj == 0 {
		ex.doPanic(st, "atomic op on nil pointer in "+full+" called from "+ex.site(f)+fmt.Sprintf(" arg=%T %v", args[0], fmtValue(args[0])))
		return nil, true
	}
	switch {
	case strings.HasPrefix(name, "Load"):
		return ret(ex.load(st, p))
	case strings.HasPrefix(name, "Store"):
		ex.store(st, p, args[1])
		return ret(nil)
	case strings.HasPrefix(name, "Add"):
		nv := ex.ctx.BVAdd(ex.load(st, p).(*Term), args[1].(*Term))
		ex.store(st, p, nv)
		return ret(nv)
	case strings.HasPrefix(name, "Swap"):
		old := ex.load(st, p)
		ex.store(st, p, args[1])
		return ret(old)
	case strings.HasPrefix(name, "CompareAndSwap"):
		cur := ex.load(st, p)
		eq := ex.valueEq(cur, args[1])
		if eq.Op == OConst {
			if eq.C != 0 {
				ex.store(st, p, args[2])
			}
			return ret(eq)
		}
		nv, ok := ex.mergeValue(eq, args[2], cur)
		if !ok {
			unsupported("symbolic CAS on non-mergeable value")
		}
		ex.store(st, p, nv)
		return ret(eq)
	}
	unsupported("atomic op %s", full)
	return nil, true
}

func (ex *Exec) chanSend(st *State, th *Thread, f *Frame, x *ssa.Send) []*State {
	ch := ex.operand(st, f, x.Chan).(ChanRef)
	if ch.Obj == 0 {
		unsupported("send on nil channel")
	}
	co := ex.p.loadObj(st, ch.Obj).(*ChanObj)
	if co.Closed {
		ex.doPanic(st, "send on closed channel")
		return nil
	}
	if th.ackChan != 0 {
		// rendezvous completed: the receiver has taken the value
		th.ackChan = 0
		f.ip++
		return nil
	}
	if len(co.Buf) < co.Cap {
		nc := &ChanObj{Buf: append(append([]Value{}, co.Buf...), ex.operand(st, f, x.X)), Cap: co.Cap}
		st.heap[ch.Obj] = nc
		f.ip++
		return nil
	}
	if co.Cap == 0 && len(co.Buf) == 0 && len(st.threads) > 1 {
		// unbuffered: hand the value over and wait until it has been received
		st.heap[ch.Obj] = &ChanObj{Buf: []Value{ex.operand(st, f, x.X)}, Cap: 0}
		th.ackChan = ch.Obj
		return nil
	}
	unsupported("blocking send with no other thread able to receive")
	return nil
}

func (ex *Exec) chanRecv(st *State, th *Thread, f *Frame, x *ssa.UnOp, v Value) []*State {
	ch := v.(ChanRef)
	if ch.Obj == 0 {
		unsupported("receive on nil channel")
	}
	co := ex.p.loadObj(st, ch.Obj).(*ChanObj)
	et := x.X.Type().Underlying().(*types.Chan).Elem()
	if len(co.Buf) > 0 {
		val := co.Buf[0]
		st.heap[ch.Obj] = &ChanObj{Buf: append([]Value{}, co.Buf[1:]...), Cap: co.Cap, Closed: co.Closed}
		if x.CommaOk {
			f.set(x, &Agg{E: []Value{val, TrueT}})
		} else {
			f.set(x, val)
		}
		f.ip++
		return nil
	}
	if co.Closed {
		if x.CommaOk {
			f.set(x, &Agg{E: []Value{zeroValue(et), FalseT}})
		} else {
			f.set(x, zeroValue(et))
		}
		f.ip++
		return nil
	}
	unsupported("blocking receive (channel empty) in sequential mode")
	return nil
}

func (ex *Exec) chanClose(st *State, th *Thread, f *Frame, v Value, call *ssa.Call, isDefer bool) []*State {
	ch := v.(ChanRef)
	if ch.Obj == 0 {
		ex.doPanic(st, "close of nil channel")
		return nil
	}
	co := ex.p.loadObj(st, ch.Obj).(*ChanObj)
	if co.Closed {
		ex.doPanic(st, "close of closed channel")
		return nil
	}
	st.heap[ch.Obj] = &ChanObj{Buf: co.Buf, Cap: co.Cap, Closed: true}
	ex.setResult(f, call, isDefer, nil)
	return nil
}

func (ex *Exec) selectOp(st *State, th *Thread, f *Frame, x *ssa.Select) []*State {
	// sequential semantics: first ready case in order, else default, else unsupported
	for i, s := range x.States {
		ch := ex.operand(st, f, s.Chan).(ChanRef)
		if ch.Obj == 0 {
			continue
		}
		co := ex.p.loadObj(st, ch.Obj).(*ChanObj)
		if s.Dir == types.RecvOnly {
			if len(co.Buf) > 0 || co.Closed {
				var val Value
				ok := TrueT
				et := s.Chan.Type().Underlying().(*types.Chan).Elem()
				if len(co.Buf) > 0 {
					val = co.Buf[0]
					st.heap[ch.Obj] = &ChanObj{Buf: append([]Value{}, co.Buf[1:]...), Cap: co.Cap, Closed: co.Closed}
				} else {
					val = zeroValue(et)
					ok = FalseT
				}
				f.set(x, ex.selectResult(x, i, ok, val))
				f.ip++
				return nil
			}
		} else {
			if co.Closed {
				ex.doPanic(st, "send on closed channel")
				return nil
			}
			if len(co.Buf) < co.Cap {
				st.heap[ch.Obj] = &ChanObj{Buf: append(append([]Value{}, co.Buf...), ex.operand(st, f, s.Send)), Cap: co.Cap}
				f.set(x, ex.selectResult(x, i, FalseT, nil))
				f.ip++
				return nil
			}
		}
	}
	if !x.Blocking {
		f.set(x, ex.selectResult(x, -1, FalseT, nil))
		f.ip++
		return nil
	}
	unsupported("blocking select with no ready case in sequential mode")
	return nil
}

func (ex *Exec) selectResult(x *ssa.Select, idx int, recvOk *Term, val Value) Value {
	tup := x.Type().(*types.Tuple)
	r := &Agg{E: make([]Value, tup.Len())}
	r.E[0] = BVC(64, uint64(int64(idx)))
	r.E[1] = recvOk
	k := 2
	for i, s := range x.States {
		if s.Dir == types.RecvOnly {
			if i == idx {
				r.E[k] = val
			} else {
				r.E[k] = zeroValue(tup.At(k).Type())
			}
			k++
		}
	}
	return r
}

func (ex *Exec) nativeClosure(st *State, th *Thread, f *Frame, cl *Closure, args []Value, call *ssa.Call, isDefer bool) []*State {
	switch cl.Native {
	case "swapper":
		s := cl.Recv.(Slice)
		i, ok1 := constInt(args[0])
		j, ok2 := constInt(args[1])
		if !ok1 || !ok2 {
			unsupported("swapper with symbolic indices")
		}
		arr := ex.load(st, s.Arr).(*Agg)
		na := &Agg{E: make([]Value, len(arr.E))}
		copy(na.E, arr.E)
		na.E[s.Off+i], na.E[s.Off+j] = na.E[s.Off+j], na.E[s.Off+i]
		ex.store(st, s.Arr, na)
		ex.setResult(f, call, isDefer, nil)
		return nil
	}
	unsupported("native closure %s", cl.Native)
	return nil
}
