package main

import (
	"encoding/json"
	"fmt"
	"os"
	"os/exec"
	"path/filepath"
	"sort"
	"strings"
	"time"
)

type ReplayCase struct {
	ID     string      `json:"id"`
	Prop   string      `json:"property"`
	Ob     string      `json:"obligation"`
	Pkg    string      `json:"pkg"`
	Entry  string      `json:"entry"`
	Kind   string      `json:"kind"` // assert|panic|witness
	Msg    string      `json:"msg"`
	Site   string      `json:"site"`
	Vals   []NondetVal `json:"nondets"`
	Notes  []string    `json:"notes,omitempty"`
	Result string      `json:"native_result,omitempty"`
	Quick  bool        `json:"quick"`
	Seed   uint64      `json:"seed"`
	Repeat int         `json:"repeat,omitempty"`
}

const replayTestTmpl = `package %s

import (
	"fmt"
	"testing"
)

func TestVerifReplay(t *testing.T) {
	cases := []struct {
		id    string
		entry string
		quick bool
		seed  uint64
		rep   int
		vals  []uint64
	}{
%s	}
	for _, c := range cases {
		func() {
			defer func() {
				if r := recover(); r != nil {
					fmt.Printf("VERIF-REPLAY %%s panic: %%v\n", c.id, r)
				}
			}()
			// schedule-dependent models are replayed repeatedly with real goroutines
			for it := 0; it < c.rep; it++ {
				verifVals = c.vals
				verifPos = 0
				verifQuickFlag, verifSeedVal = c.quick, c.seed
				switch c.entry {
%s				default:
					fmt.Printf("VERIF-REPLAY %%s noentry\n", c.id)
					return
				}
			}
			fmt.Printf("VERIF-REPLAY %%s passed\n", c.id)
		}()
	}
}
`

// runReplays executes the cases natively (one go test per package) and fills in Result.
func runReplays(cases []*ReplayCase, verbose bool) error {
	byPkg := map[string][]*ReplayCase{}
	for _, c := range cases {
		byPkg[c.Pkg] = append(byPkg[c.Pkg], c)
	}
	tmp, err := os.MkdirTemp("", "gosym-replay-")
	if err != nil {
		return err
	}
	defer os.RemoveAll(tmp)
	var pkgs []string
	for p := range byPkg {
		pkgs = append(pkgs, p)
	}
	sort.Strings(pkgs)
	for _, p := range pkgs {
		cs := byPkg[p]
		// cases expected to block (deadlocks) run last so that they do not hide the others
		sort.SliceStable(cs, func(i, j int) bool { return cs[i].Kind != "deadlock" && cs[j].Kind == "deadlock" })
		ov := buildOverlay([]string{p}, true)
		name := pkgNameOf(filepath.Join(repoDir, p))
		var rows, sw strings.Builder
		entries := map[string]bool{}
		for _, c := range cs {
			rep := c.Repeat
			if rep < 1 {
				rep = 1
			}
			fmt.Fprintf(&rows, "\t\t{%q, %q, %v, %d, %d, []uint64{", c.ID, c.Entry, c.Quick, c.Seed, rep)
			for _, v := range c.Vals {
				fmt.Fprintf(&rows, "%#x,", v.Bits)
			}
			rows.WriteString("}},\n")
			entries[c.Entry] = true
		}
		var es []string
		for e := range entries {
			es = append(es, e)
		}
		sort.Strings(es)
		for _, e := range es {
			fmt.Fprintf(&sw, "\t\t\t\tcase %q:\n\t\t\t\t\t%s()\n", e, e)
		}
		ov[filepath.Join(repoDir, p, "zz_verif_replay_test.go")] = []byte(fmt.Sprintf(replayTestTmpl, name, rows.String(), sw.String()))
		// materialise overlay
		repl := map[string]string{}
		i := 0
		for virt, content := range ov {
			real := filepath.Join(tmp, fmt.Sprintf("f%d_%s", i, filepath.Base(virt)))
			i++
			if err := os.WriteFile(real, content, 0644); err != nil {
				return err
			}
			repl[virt] = real
		}
		ovj, _ := json.Marshal(map[string]interface{}{"Replace": repl})
		ovPath := filepath.Join(tmp, "overlay_"+strings.ReplaceAll(p, "/", "_")+".json")
		os.WriteFile(ovPath, ovj, 0644)
		tmo := "600s"
		for _, c := range cs {
			if c.Kind == "deadlock" {
				tmo = "150s" // a reproduced deadlock shows as the test timing out
			}
		}
		args := []string{"test", "-vet=off", "-count=1", "-timeout", tmo, "-overlay", ovPath, "-run", "^TestVerifReplay$", "-v"}
		for _, c := range cs {
			if c.Kind == "race" {
				args = append(args, "-race")
				break
			}
		}
		args = append(args, "./"+p)
		cmd := exec.Command("go", args...)
		cmd.Dir = repoDir
		cmd.Env = append(os.Environ(), "GOFLAGS=-mod=mod", "GOPROXY=off", "GOSUMDB=off", "GOTOOLCHAIN=local")
		t0 := time.Now()
		out, _ := cmd.CombinedOutput()
		if verbose {
			fmt.Fprintf(os.Stderr, "replay %s (%d cases) took %v\n", p, len(cs), time.Since(t0))
		}
		txt := string(out)
		found := map[string]string{}
		for _, l := range strings.Split(txt, "\n") {
			l = strings.TrimSpace(l)
			if strings.HasPrefix(l, "VERIF-REPLAY ") {
				f := strings.SplitN(l[len("VERIF-REPLAY "):], " ", 2)
				if len(f) == 2 {
					found[f[0]] = f[1]
				}
			}
		}
		for _, c := range cs {
			r, ok := found[c.ID]
			if !ok {
				r = "norun: " + lastLines(txt, 6)
			}
			if c.Kind == "panic" && !ok {
				// a panic in a goroutine of the code under test kills the test binary: look for it in the output
				for _, frag := range []string{"send on closed channel", "close of closed channel", "nil pointer dereference", "index out of range", "integer divide by zero"} {
					if strings.Contains(c.Msg, frag) && strings.Contains(txt, "panic: "+frag) || (strings.Contains(c.Msg, frag) && strings.Contains(txt, "panic: runtime error: "+frag)) {
						r = "panic: the replay crashed the process with: " + frag
					}
				}
			}
			if c.Kind == "deadlock" && !ok && (strings.Contains(txt, "test timed out") || strings.Contains(txt, "all goroutines are asleep")) {
				r = "DEADLOCK reproduced natively: the replay blocked until the test timed out"
			}
			if c.Kind == "race" && strings.Contains(txt, "WARNING: DATA RACE") {
				r = "DATA RACE reported by the Go race detector; " + r
			}
			c.Result = r
		}
	}
	return nil
}

func lastLines(s string, n int) string {
	ls := strings.Split(strings.TrimSpace(s), "\n")
	if len(ls) > n {
		ls = ls[len(ls)-n:]
	}
	return strings.Join(ls, " | ")
}

// classify a native replay result against the expectation of the case.
func replayConfirms(c *ReplayCase) bool {
	switch c.Kind {
	case "witness":
		return c.Result == "passed"
	case "assert":
		return strings.HasPrefix(c.Result, "panic: VERIF-ASSERT-FAILED")
	case "race":
		return strings.HasPrefix(c.Result, "DATA RACE")
	case "deadlock":
		return strings.HasPrefix(c.Result, "DEADLOCK")
	case "panic":
		return strings.HasPrefix(c.Result, "panic:") && !strings.Contains(c.Result, "VERIF-ASSUME-FAILED") && !strings.Contains(c.Result, "VERIF-REPLAY-EXHAUSTED") && !strings.Contains(c.Result, "VERIF-ASSERT-FAILED")
	}
	return false
}
