package main

import (
	"bytes"
	"encoding/json"
	"fmt"
	"go/ast"
	"go/parser"
	"go/printer"
	"go/token"
	"os"
	"os/exec"
	"path/filepath"
	"sort"
	"strings"
	"time"
)

type ReplayCase struct {
	ID     string      `json:"id"`
	Prop   string      `json:"property"`
	Ob     string      `json:"obligation"`
	Pkg    string      `json:"pkg"`
	Entry  string      `json:"entry"`
	Kind   string      `json:"kind"` // assert|panic|witness
	Msg    string      `json:"msg"`
	Site   string      `json:"site"`
	Vals   []NondetVal `json:"nondets"`
	Notes  []string    `json:"notes,omitempty"`
	Result string      `json:"native_result,omitempty"`
	Quick  bool        `json:"quick"`
	Seed   uint64      `json:"seed"`
	Repeat int         `json:"repeat,omitempty"`
	Repl   map[string]string `json:"replaced,omitempty"` // function replacements of the obligation (full name -> harness function)
}

const replayTestTmpl = `package %s

import (
	"fmt"
	"testing"
)

func TestVerifReplay(t *testing.T) {
	cases := []struct {
		id    string
		entry string
		quick bool
		seed  uint64
		rep   int
		vals  []uint64
		repl  []string
	}{
%s	}
	for _, c := range cases {
		func() {
			defer func() {
				if r := recover(); r != nil {
					fmt.Printf("VERIF-REPLAY %%s panic: %%v\n", c.id, r)
				}
			}()
			// schedule-dependent models are replayed repeatedly with real goroutines
			for it := 0; it < c.rep; it++ {
				verifVals = c.vals
				verifPos = 0
				verifQuickFlag, verifSeedVal = c.quick, c.seed
				verifReplaceOn = map[string]bool{}
				for _, r := range c.repl {
					verifReplaceOn[r] = true
				}
				switch c.entry {
%s				default:
					fmt.Printf("VERIF-REPLAY %%s noentry\n", c.id)
					return
				}
			}
			fmt.Printf("VERIF-REPLAY %%s passed\n", c.id)
		}()
	}
}
`

// runReplays executes the cases natively (one go test per package) and fills in Result.
func runReplays(cases []*ReplayCase, verbose bool) error {
	byPkg := map[string][]*ReplayCase{}
	for _, c := range cases {
		byPkg[c.Pkg] = append(byPkg[c.Pkg], c)
	}
	tmp, err := os.MkdirTemp("", "gosym-replay-")
	if err != nil {
		return err
	}
	defer os.RemoveAll(tmp)
	var pkgs []string
	for p := range byPkg {
		pkgs = append(pkgs, p)
	}
	sort.Strings(pkgs)
	for _, p := range pkgs {
		cs := byPkg[p]
		// cases expected to block (deadlocks) run last so that they do not hide the others
		sort.SliceStable(cs, func(i, j int) bool { return cs[i].Kind != "deadlock" && cs[j].Kind == "deadlock" })
		ov := buildOverlay([]string{p}, true)
		name := pkgNameOf(filepath.Join(repoDir, p))
		var rows, sw strings.Builder
		entries := map[string]bool{}
		for _, c := range cs {
			rep := c.Repeat
			if rep < 1 {
				rep = 1
			}
			fmt.Fprintf(&rows, "\t\t{%q, %q, %v, %d, %d, []uint64{", c.ID, c.Entry, c.Quick, c.Seed, rep)
			for _, v := range c.Vals {
				fmt.Fprintf(&rows, "%#x,", v.Bits)
			}
			rows.WriteString("}, []string{")
			for _, full := range sortedStrKeys(c.Repl) {
				fmt.Fprintf(&rows, "%q,", full)
			}
			rows.WriteString("}},\n")
			entries[c.Entry] = true
		}
		var es []string
		for e := range entries {
			es = append(es, e)
		}
		sort.Strings(es)
		for _, e := range es {
			fmt.Fprintf(&sw, "\t\t\t\tcase %q:\n\t\t\t\t\t%s()\n", e, e)
		}
		// function replacements of the obligations: the replaced functions of this package get a
		// forwarder that calls the harness function while the replacement is switched on
		allRepl := map[string]string{}
		for _, c := range cs {
			for k, v := range c.Repl {
				allRepl[k] = v
			}
		}
		if err := nativeReplacements(p, allRepl, ov); err != nil {
			return err
		}
		ov[filepath.Join(repoDir, p, "zz_verif_replay_test.go")] = []byte(fmt.Sprintf(replayTestTmpl, name, rows.String(), sw.String()))
		// materialise overlay
		repl := map[string]string{}
		i := 0
		for virt, content := range ov {
			real := filepath.Join(tmp, fmt.Sprintf("f%d_%s", i, filepath.Base(virt)))
			i++
			if err := os.WriteFile(real, content, 0644); err != nil {
				return err
			}
			repl[virt] = real
		}
		ovj, _ := json.Marshal(map[string]interface{}{"Replace": repl})
		ovPath := filepath.Join(tmp, "overlay_"+strings.ReplaceAll(p, "/", "_")+".json")
		os.WriteFile(ovPath, ovj, 0644)
		tmo := "600s"
		for _, c := range cs {
			if c.Kind == "deadlock" {
				tmo = "150s" // a reproduced deadlock shows as the test timing out
			}
		}
		args := []string{"test", "-vet=off", "-count=1", "-timeout", tmo, "-overlay", ovPath, "-run", "^TestVerifReplay$", "-v"}
		for _, c := range cs {
			if c.Kind == "race" {
				args = append(args, "-race")
				break
			}
		}
		args = append(args, "./"+p)
		cmd := exec.Command("go", args...)
		cmd.Dir = repoDir
		cmd.Env = append(os.Environ(), "GOFLAGS=-mod=mod", "GOPROXY=off", "GOSUMDB=off", "GOTOOLCHAIN=local")
		t0 := time.Now()
		out, _ := cmd.CombinedOutput()
		if verbose {
			fmt.Fprintf(os.Stderr, "replay %s (%d cases) took %v\n", p, len(cs), time.Since(t0))
		}
		txt := string(out)
		found := map[string]string{}
		for _, l := range strings.Split(txt, "\n") {
			l = strings.TrimSpace(l)
			if strings.HasPrefix(l, "VERIF-REPLAY ") {
				f := strings.SplitN(l[len("VERIF-REPLAY "):], " ", 2)
				if len(f) == 2 {
					found[f[0]] = f[1]
				}
			}
		}
		for _, c := range cs {
			r, ok := found[c.ID]
			if !ok {
				r = "norun: " + lastLines(txt, 6)
			}
			if c.Kind == "panic" && !ok {
				// a panic in a goroutine of the code under test kills the test binary: look for it in the output
				for _, frag := range []string{"send on closed channel", "close of closed channel", "nil pointer dereference", "index out of range", "integer divide by zero"} {
					if strings.Contains(c.Msg, frag) && strings.Contains(txt, "panic: "+frag) || (strings.Contains(c.Msg, frag) && strings.Contains(txt, "panic: runtime error: "+frag)) {
						r = "panic: the replay crashed the process with: " + frag
					}
				}
			}
			if c.Kind == "deadlock" && !ok && (strings.Contains(txt, "test timed out") || strings.Contains(txt, "all goroutines are asleep")) {
				r = "DEADLOCK reproduced natively: the replay blocked until the test timed out"
			}
			if c.Kind == "race" && strings.Contains(txt, "WARNING: DATA RACE") {
				r = "DATA RACE reported by the Go race detector; " + r
			}
			c.Result = r
		}
	}
	return nil
}

func lastLines(s string, n int) string {
	ls := strings.Split(strings.TrimSpace(s), "\n")
	if len(ls) > n {
		ls = ls[len(ls)-n:]
	}
	return strings.Join(ls, " | ")
}

// classify a native replay result against the expectation of the case.
func replayConfirms(c *ReplayCase) bool {
	switch c.Kind {
	case "witness":
		return c.Result == "passed"
	case "assert":
		return strings.HasPrefix(c.Result, "panic: VERIF-ASSERT-FAILED")
	case "race":
		return strings.HasPrefix(c.Result, "DATA RACE")
	case "deadlock":
		return strings.HasPrefix(c.Result, "DEADLOCK")
	case "panic":
		return strings.HasPrefix(c.Result, "panic:") && !strings.Contains(c.Result, "VERIF-ASSUME-FAILED") && !strings.Contains(c.Result, "VERIF-REPLAY-EXHAUSTED") && !strings.Contains(c.Result, "VERIF-ASSERT-FAILED")
	}
	return false
}

func sortedStrKeys(m map[string]string) []string {
	var ks []string
	for k := range m {
		ks = append(ks, k)
	}
	sort.Strings(ks)
	return ks
}

// nativeReplacements rewrites (in the overlay only) the source files of package dir p that
// declare a replaced function: the declaration is renamed and a forwarder with the original
// name calls the harness function when verifReplaceOn[full name] is set, else the original.
// Replacements of functions of other packages are not applied natively (the real function runs).
func nativeReplacements(p string, repl map[string]string, ov map[string][]byte) error {
	if len(repl) == 0 {
		return nil
	}
	pkgPath := modPath + "/" + p
	type target struct{ full, recv, name, harness string }
	var targets []target
	for _, full := range sortedStrKeys(repl) {
		recv, name, path := "", "", ""
		if strings.HasPrefix(full, "(") {
			i := strings.Index(full, ").")
			if i < 0 {
				continue
			}
			inner := strings.TrimPrefix(full[1:i], "*")
			j := strings.LastIndex(inner, ".")
			if j < 0 {
				continue
			}
			path, recv, name = inner[:j], inner[j+1:], full[i+2:]
		} else {
			j := strings.LastIndex(full, ".")
			if j < 0 {
				continue
			}
			path, name = full[:j], full[j+1:]
		}
		if path != pkgPath {
			continue
		}
		targets = append(targets, target{full, recv, name, repl[full]})
	}
	if len(targets) == 0 {
		return nil
	}
	dir := filepath.Join(repoDir, p)
	ents, err := os.ReadDir(dir)
	if err != nil {
		return err
	}
	for _, e := range ents {
		fn := e.Name()
		if e.IsDir() || !strings.HasSuffix(fn, ".go") || strings.HasSuffix(fn, "_test.go") {
			continue
		}
		path := filepath.Join(dir, fn)
		if _, harness := ov[path]; harness {
			continue
		}
		src, err := os.ReadFile(path)
		if err != nil {
			return err
		}
		fset := token.NewFileSet()
		file, err := parser.ParseFile(fset, path, src, parser.ParseComments)
		if err != nil {
			return err
		}
		var extra strings.Builder
		for _, d := range file.Decls {
			fd, ok := d.(*ast.FuncDecl)
			if !ok || fd.Body == nil {
				continue
			}
			rt := ""
			if fd.Recv != nil && len(fd.Recv.List) == 1 {
				t := fd.Recv.List[0].Type
				if st, ok := t.(*ast.StarExpr); ok {
					t = st.X
				}
				if id, ok := t.(*ast.Ident); ok {
					rt = id.Name
				}
			}
			for _, tg := range targets {
				if tg.name != fd.Name.Name || tg.recv != rt {
					continue
				}
				extra.WriteString(forwarderFor(fset, fd, tg.full, tg.harness))
				fd.Name.Name = tg.name + "__verifOrig"
			}
		}
		if extra.Len() == 0 {
			continue
		}
		var buf bytes.Buffer
		if err := printer.Fprint(&buf, fset, file); err != nil {
			return err
		}
		buf.WriteString("\n" + extra.String())
		ov[path] = buf.Bytes()
	}
	return nil
}

func forwarderFor(fset *token.FileSet, fd *ast.FuncDecl, full, harness string) string {
	expr := func(e ast.Expr) string {
		var b bytes.Buffer
		printer.Fprint(&b, fset, e)
		return b.String()
	}
	var sb strings.Builder
	sb.WriteString("func ")
	var args []string
	callOrig := fd.Name.Name + "__verifOrig"
	if fd.Recv != nil && len(fd.Recv.List) == 1 {
		sb.WriteString("(vr " + expr(fd.Recv.List[0].Type) + ") ")
		args = append(args, "vr")
		callOrig = "vr." + callOrig
	}
	sb.WriteString(fd.Name.Name + "(")
	var pass []string
	k := 0
	for _, f := range fd.Type.Params.List {
		n := len(f.Names)
		if n == 0 {
			n = 1
		}
		for i := 0; i < n; i++ {
			name := fmt.Sprintf("v%d", k)
			k++
			if k > 1 {
				sb.WriteString(", ")
			}
			sb.WriteString(name + " " + expr(f.Type))
			if _, variadic := f.Type.(*ast.Ellipsis); variadic {
				name += "..."
			}
			pass = append(pass, name)
		}
	}
	sb.WriteString(") ")
	ret := ""
	if fd.Type.Results != nil && len(fd.Type.Results.List) > 0 {
		ret = "return "
		var rs []string
		for _, f := range fd.Type.Results.List {
			n := len(f.Names)
			if n == 0 {
				n = 1
			}
			for i := 0; i < n; i++ {
				rs = append(rs, expr(f.Type))
			}
		}
		sb.WriteString("(" + strings.Join(rs, ", ") + ") ")
	}
	hargs := append(append([]string{}, args...), pass...)
	tail := "\n\t\treturn"
	if ret != "" {
		tail = ""
	}
	fmt.Fprintf(&sb, "{\n\tif verifReplaceOn[%q] {\n\t\t%s%s(%s)%s\n\t}\n\t%s%s(%s)\n}\n", full, ret, harness, strings.Join(hargs, ", "), tail, ret, callOrig, strings.Join(pass, ", "))
	return sb.String()
}
