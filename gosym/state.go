package main

import (
	"fmt"
	"go/types"
	"sync"

	"golang.org/x/tools/go/ssa"
)

type FnInfo struct {
	idx      map[ssa.Value]int
	n        int
	ipdom    []int // block index -> immediate post-dominator block index, -1 = exit
	firstNon []int // block index -> index of first non-phi instruction
	noMerge  bool
	liveOnce sync.Once
	loopExit []bool // block index -> the If at its end can leave a cycle the block is in
	live     *liveInfo
}

type Program struct {
	prog     *ssa.Program
	pkgs     map[string]*ssa.Package
	fnInfo   sync.Map
	globals  map[*ssa.Global]int
	baseHeap map[int]Value
	baseNext int
	tabMu    sync.Mutex
	tabCache map[*Agg]*Table
	ntab     int
	initSteps int
}

func derefType(t types.Type) types.Type {
	return t.Underlying().(*types.Pointer).Elem()
}

func (p *Program) info(fn *ssa.Function) *FnInfo {
	if v, ok := p.fnInfo.Load(fn); ok {
		return v.(*FnInfo)
	}
	fi := &FnInfo{idx: map[ssa.Value]int{}}
	n := 0
	for _, pa := range fn.Params {
		fi.idx[pa] = n
		n++
	}
	for _, fv := range fn.FreeVars {
		fi.idx[fv] = n
		n++
	}
	for _, b := range fn.Blocks {
		for _, in := range b.Instrs {
			if v, ok := in.(ssa.Value); ok {
				fi.idx[v] = n
				n++
			}
		}
	}
	fi.n = n
	fi.firstNon = make([]int, len(fn.Blocks))
	for i, b := range fn.Blocks {
		k := 0
		for k < len(b.Instrs) {
			if _, ok := b.Instrs[k].(*ssa.Phi); !ok {
				break
			}
			k++
		}
		fi.firstNon[i] = k
	}
	fi.ipdom = computeIPDom(fn)
	fi.loopExit = computeLoopExit(fn)
	v, _ := p.fnInfo.LoadOrStore(fn, fi)
	return v.(*FnInfo)
}

// computeIPDom computes immediate post-dominators with a virtual exit node
// (index n) that every Return/Panic block flows to.
func computeIPDom(fn *ssa.Function) []int {
	n := len(fn.Blocks)
	if n == 0 {
		return nil
	}
	exit := n
	succs := make([][]int, n+1)
	for i, b := range fn.Blocks {
		if len(b.Succs) == 0 {
			succs[i] = []int{exit}
		}
		for _, s := range b.Succs {
			succs[i] = append(succs[i], s.Index)
		}
	}
	// postdom sets as bitsets over n+1 nodes
	words := (n + 1 + 63) / 64
	full := make([]uint64, words)
	for i := 0; i <= n; i++ {
		full[i/64] |= 1 << uint(i%64)
	}
	pd := make([][]uint64, n+1)
	for i := 0; i <= n; i++ {
		pd[i] = make([]uint64, words)
		if i == exit {
			pd[i][i/64] = 1 << uint(i%64)
		} else {
			copy(pd[i], full)
		}
	}
	changed := true
	tmp := make([]uint64, words)
	for changed {
		changed = false
		for i := n - 1; i >= 0; i-- {
			copy(tmp, full)
			for _, s := range succs[i] {
				for w := range tmp {
					tmp[w] &= pd[s][w]
				}
			}
			tmp[i/64] |= 1 << uint(i%64)
			for w := range tmp {
				if tmp[w] != pd[i][w] {
					changed = true
					pd[i][w] = tmp[w]
				}
			}
		}
	}
	has := func(set []uint64, i int) bool { return set[i/64]&(1<<uint(i%64)) != 0 }
	count := func(set []uint64) int {
		c := 0
		for i := 0; i <= n; i++ {
			if has(set, i) {
				c++
			}
		}
		return c
	}
	res := make([]int, n)
	for i := 0; i < n; i++ {
		// ipdom = the strict post-dominator whose own pdom set is exactly pd[i] minus {i}
		want := count(pd[i]) - 1
		res[i] = -1
		for j := 0; j <= n; j++ {
			if j == i || !has(pd[i], j) {
				continue
			}
			if count(pd[j]) == want {
				if j == exit {
					res[i] = -1
				} else {
					res[i] = j
				}
				break
			}
		}
	}
	return res
}

type deferred struct {
	fn   Value // *Closure
	args []Value
}

type Frame struct {
	fn     *ssa.Function
	info   *FnInfo
	block  *ssa.BasicBlock
	prev   *ssa.BasicBlock
	ip     int
	locals []Value
	defers []deferred
	retTo  ssa.Value // value in caller frame to receive the result; nil = discard
	loops  map[int]int
	symFlag bool
	// frame was started to run a deferred call; on return the parent re-executes
	// its RunDefers / continues unwinding
	isDeferCall bool
}

func (f *Frame) clone() *Frame {
	nf := *f
	nf.locals = make([]Value, len(f.locals))
	copy(nf.locals, f.locals)
	if len(f.defers) > 0 {
		nf.defers = append([]deferred(nil), f.defers...)
	}
	if f.loops != nil {
		nf.loops = make(map[int]int, len(f.loops))
		for k, v := range f.loops {
			nf.loops[k] = v
		}
	}
	return &nf
}

type PanicInfo struct {
	Msg string
	Val Value
}

type Thread struct {
	id       int
	stack    []*Frame
	panicking *PanicInfo
	done     bool
	blocked  bool
	ackChan  int // unbuffered send handed over, waiting for the receiver
}

func (t *Thread) clone() *Thread {
	nt := *t
	nt.stack = make([]*Frame, len(t.stack))
	for i, f := range t.stack {
		nt.stack[i] = f.clone()
	}
	return &nt
}

func (t *Thread) top() *Frame { return t.stack[len(t.stack)-1] }

type NondetRec struct {
	Kind string
	Name string
	T    *Term // value term (var); for strings etc. composite handled by kind
}

type State struct {
	heap    map[int]Value
	nextObj int
	objCtr  *int
	threads []*Thread
	cur     int
	pc      []*Term
	nondets []NondetRec
	model   Model
	memo    map[*Term]uint64
	memoPtr uintptr
	reached []string
	notes   []string
	steps   int
	splits  []uint64 // verifSplit choices taken on this path
	nsplit  int
	ended   bool
	// counters for stubs (e.g. monotone cancellation)
	stub map[string]Value
	switches int
	committed bool
	shared   []Ptr
	raceSeen bool
}

func (s *State) clone() *State {
	ns := *s
	ns.heap = make(map[int]Value, len(s.heap)+8)
	for k, v := range s.heap {
		ns.heap[k] = v
	}
	ns.threads = make([]*Thread, len(s.threads))
	for i, t := range s.threads {
		ns.threads[i] = t.clone()
	}
	ns.pc = append([]*Term(nil), s.pc...)
	ns.nondets = append([]NondetRec(nil), s.nondets...)
	ns.reached = append([]string(nil), s.reached...)
	ns.notes = append([]string(nil), s.notes...)
	ns.splits = append([]uint64(nil), s.splits...)
	if s.stub != nil {
		ns.stub = make(map[string]Value, len(s.stub))
		for k, v := range s.stub {
			ns.stub[k] = v
		}
	}
	return &ns
}

func (s *State) thread() *Thread { return s.threads[s.cur] }

// ---- heap ----

func (p *Program) loadObj(s *State, obj int) Value {
	if v, ok := s.heap[obj]; ok {
		return v
	}
	if v, ok := p.baseHeap[obj]; ok {
		return v
	}
	panic(fmt.Sprintf("dangling object %d", obj))
}

// alloc: object ids come from a counter shared by all states of a task, so that two
// forked states never reuse an id for different allocations (which would make their
// heaps unmergeable).
func (s *State) alloc(v Value) int {
	if s.objCtr != nil {
		*s.objCtr++
		s.nextObj = *s.objCtr
	} else {
		s.nextObj++
	}
	s.heap[s.nextObj] = v
	return s.nextObj
}

// elemType returns the type of sub-element i of aggregate type t.
func elemType(t types.Type, i int) types.Type {
	switch u := t.Underlying().(type) {
	case *types.Struct:
		return u.Field(i).Type()
	case *types.Array:
		return u.Elem()
	case *types.Tuple:
		return u.At(i).Type()
	}
	panic(fmt.Sprintf("elemType of %v", t))
}

// computeLoopExit marks blocks that lie on a cycle and have a successor from
// which the block is not reachable again (the branch controls loop termination).
func computeLoopExit(fn *ssa.Function) []bool {
	n := len(fn.Blocks)
	res := make([]bool, n)
	// reach[i] = set of blocks reachable from i (by >=1 edge)
	reach := make([][]bool, n)
	for i := 0; i < n; i++ {
		seen := make([]bool, n)
		stack := []int{}
		for _, s := range fn.Blocks[i].Succs {
			if !seen[s.Index] {
				seen[s.Index] = true
				stack = append(stack, s.Index)
			}
		}
		for len(stack) > 0 {
			b := stack[len(stack)-1]
			stack = stack[:len(stack)-1]
			for _, s := range fn.Blocks[b].Succs {
				if !seen[s.Index] {
					seen[s.Index] = true
					stack = append(stack, s.Index)
				}
			}
		}
		reach[i] = seen
	}
	for i := 0; i < n; i++ {
		if !reach[i][i] {
			continue // not on a cycle
		}
		for _, s := range fn.Blocks[i].Succs {
			if !reach[s.Index][i] {
				res[i] = true
			}
		}
	}
	return res
}
