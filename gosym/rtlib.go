package main

import (
	"go/types"
	"strings"
	"unicode"

	"golang.org/x/tools/go/ssa"
)

// Library functions redirected to interpretable replacements in package verifrt.
var rtRedirect = map[string]string{
	"strconv.Itoa":      "Itoa",
	"strconv.Atoi":      "Atoi",
	"strconv.ParseBool": "ParseBool",
	"strings.TrimSpace": "TrimSpace",
	"strings.Split":     "Split",
	"strings.Join":      "Join",
	"strings.HasPrefix": "HasPrefix",
	"strings.TrimPrefix": "TrimPrefix",
	"strings.ToLower":   "ToLower",
	"strings.ToUpper":   "ToUpper",
	"fmt.Sprintf":       "Sprintf",
	"fmt.Sprint":        "Sprint",
	"fmt.Errorf":        "Errorf",
	"context.WithCancel": "WithCancel",
}

func builderKey(p Ptr) string { return "sb@" + itoaInt(p.Obj) + pathKey(p.Path) }

func itoaInt(n int) string {
	if n == 0 {
		return "0"
	}
	s := ""
	neg := n < 0
	if neg {
		n = -n
	}
	for n > 0 {
		s = string(rune('0'+n%10)) + s
		n /= 10
	}
	if neg {
		s = "-" + s
	}
	return s
}

func pathKey(p []PathElem) string {
	s := ""
	for _, e := range p {
		s += "." + itoaInt(e.I)
	}
	return s
}

func init() {
	reg := func(name string, h interceptFn) { extraIntercepts[name] = h }
	for lib, rt := range rtRedirect {
		rt := rt
		reg(lib, func(ex *Exec, st *State, th *Thread, f *Frame, fn *ssa.Function, args []Value, call *ssa.Call, isDefer bool) ([]*State, bool) {
			if ex.rtFunc(rt) == nil {
				return nil, false
			}
			return ex.redirect(st, th, rt, args, call, isDefer), true
		})
	}
	// ---- strings.Builder: content kept beside the heap, keyed by the builder's address ----
	get := func(st *State, p Ptr) *Str {
		if v, ok := st.stub[builderKey(p)]; ok {
			return v.(*Str)
		}
		return mkStr("")
	}
	reg("(*strings.Builder).WriteString", func(ex *Exec, st *State, th *Thread, f *Frame, fn *ssa.Function, args []Value, call *ssa.Call, isDefer bool) ([]*State, bool) {
		p := args[0].(Ptr)
		cur, add := get(st, p), args[1].(*Str)
		var ns *Str
		if !cur.Sym && !add.Sym {
			ns = mkStr(cur.S + add.S)
		} else {
			ns = normStr(append(append([]*Term{}, cur.RuneTerms()...), add.RuneTerms()...))
		}
		st.stubSet(builderKey(p), ns)
		ex.rep.Stubs["strings.Builder (rune-sequence model)"] = true
		ex.setResult(f, call, isDefer, &Agg{E: []Value{ex.strLen(add), (*Iface)(nil)}})
		return nil, true
	})
	reg("(*strings.Builder).WriteRune", func(ex *Exec, st *State, th *Thread, f *Frame, fn *ssa.Function, args []Value, call *ssa.Call, isDefer bool) ([]*State, bool) {
		p := args[0].(Ptr)
		cur := get(st, p)
		r := ex.validRune(args[1].(*Term))
		st.stubSet(builderKey(p), normStr(append(append([]*Term{}, cur.RuneTerms()...), r)))
		ex.setResult(f, call, isDefer, &Agg{E: []Value{ex.runeLen(r), (*Iface)(nil)}})
		return nil, true
	})
	reg("(*strings.Builder).String", func(ex *Exec, st *State, th *Thread, f *Frame, fn *ssa.Function, args []Value, call *ssa.Call, isDefer bool) ([]*State, bool) {
		ex.setResult(f, call, isDefer, get(st, args[0].(Ptr)))
		return nil, true
	})
	reg("(*strings.Builder).Len", func(ex *Exec, st *State, th *Thread, f *Frame, fn *ssa.Function, args []Value, call *ssa.Call, isDefer bool) ([]*State, bool) {
		ex.setResult(f, call, isDefer, ex.strLen(get(st, args[0].(Ptr))))
		return nil, true
	})
	// ---- unicode ----
	reg("unicode.IsDigit", func(ex *Exec, st *State, th *Thread, f *Frame, fn *ssa.Function, args []Value, call *ssa.Call, isDefer bool) ([]*State, bool) {
		r := args[0].(*Term)
		if r.Op == OConst {
			ex.setResult(f, call, isDefer, BoolC(unicode.IsDigit(rune(int32(uint32(r.C))))))
			return nil, true
		}
		ex.rep.Stubs["unicode.IsDigit (exact: the Nd range table of the running Go)"] = true
		c := ex.ctx
		res := FalseT
		add := func(lo, hi, stride uint32) {
			in := c.And(c.Ule(BVC(32, uint64(lo)), r), c.Ule(r, BVC(32, uint64(hi))))
			if stride != 1 {
				in = c.And(in, c.Eq(c.BVURem(c.BVSub(r, BVC(32, uint64(lo))), BVC(32, uint64(stride))), BVC(32, 0)))
			}
			res = c.Or(res, in)
		}
		for _, x := range unicode.Digit.R16 {
			add(uint32(x.Lo), uint32(x.Hi), uint32(x.Stride))
		}
		for _, x := range unicode.Digit.R32 {
			add(x.Lo, x.Hi, x.Stride)
		}
		ex.setResult(f, call, isDefer, res)
		return nil, true
	})
	reg("unicode.IsLetter", func(ex *Exec, st *State, th *Thread, f *Frame, fn *ssa.Function, args []Value, call *ssa.Call, isDefer bool) ([]*State, bool) {
		r := args[0].(*Term)
		if r.Op == OConst {
			ex.setResult(f, call, isDefer, BoolC(unicode.IsLetter(rune(int32(uint32(r.C))))))
			return nil, true
		}
		ex.rep.Stubs["unicode.IsLetter (exact on ASCII, arbitrary outcome above it)"] = true
		c := ex.ctx
		k := func(v rune) *Term { return BVC(32, uint64(v)) }
		ascii := c.Or(c.And(c.Ule(k('a'), r), c.Ule(r, k('z'))), c.And(c.Ule(k('A'), r), c.Ule(r, k('Z'))))
		other := c.Fresh("isletter", BoolSort)
		ex.setResult(f, call, isDefer, c.Ite(c.Ult(r, k(0x80)), ascii, other))
		return nil, true
	})
	// ---- time: the clock is an arbitrary non-decreasing source ----
	reg("time.Now", func(ex *Exec, st *State, th *Thread, f *Frame, fn *ssa.Function, args []Value, call *ssa.Call, isDefer bool) ([]*State, bool) {
		ex.rep.Stubs["time.Now (value unused; elapsed times come from time.Since)"] = true
		ex.setResult(f, call, isDefer, zeroResults(fn))
		return nil, true
	})
	reg("time.Since", func(ex *Exec, st *State, th *Thread, f *Frame, fn *ssa.Function, args []Value, call *ssa.Call, isDefer bool) ([]*State, bool) {
		if ex.cfg.TimeZero {
			ex.rep.Stubs["time.Since (constant 0: elapsed time plays no role in this obligation)"] = true
			ex.setResult(f, call, isDefer, BVC(64, 0))
			return nil, true
		}
		ex.rep.Stubs["time.Since (arbitrary non-negative duration)"] = true
		d := ex.nondet(st, "nondetI64", "elapsed", BV(64))
		ex.addPC(st, ex.ctx.Sle(BVC(64, 0), d))
		ex.setResult(f, call, isDefer, d)
		return nil, true
	})
	reg("time.AfterFunc", func(ex *Exec, st *State, th *Thread, f *Frame, fn *ssa.Function, args []Value, call *ssa.Call, isDefer bool) ([]*State, bool) {
		// the timer may fire at any later scheduling point: a thread that runs the function
		ex.rep.Stubs["time.AfterFunc (fires at an arbitrary later point, or never before the harness ends)"] = true
		ex.spawn(st, args[1], nil)
		ex.setResult(f, call, isDefer, zeroResults(fn))
		return nil, true
	})
	// ---- sort.Slice / sort.SliceStable: the sorting algorithms are interpreted from SSA; only the
	// reflection helpers they use to find the length and to swap two elements are modelled ----
	reg("internal/reflectlite.ValueOf", func(ex *Exec, st *State, th *Thread, f *Frame, fn *ssa.Function, args []Value, call *ssa.Call, isDefer bool) ([]*State, bool) {
		ex.rep.Stubs["internal/reflectlite.ValueOf/Len/Swapper (slice length and element swap)"] = true
		ex.setResult(f, call, isDefer, args[0])
		return nil, true
	})
	reg("(internal/reflectlite.Value).Len", func(ex *Exec, st *State, th *Thread, f *Frame, fn *ssa.Function, args []Value, call *ssa.Call, isDefer bool) ([]*State, bool) {
		iv, _ := args[0].(*Iface)
		if iv == nil {
			unsupported("reflectlite.Value.Len of a non-slice")
		}
		sl, ok := iv.V.(Slice)
		if !ok {
			unsupported("reflectlite.Value.Len of a non-slice")
		}
		ex.setResult(f, call, isDefer, BVC(64, uint64(sl.Len)))
		return nil, true
	})
	reg("internal/reflectlite.Swapper", func(ex *Exec, st *State, th *Thread, f *Frame, fn *ssa.Function, args []Value, call *ssa.Call, isDefer bool) ([]*State, bool) {
		iv, _ := args[0].(*Iface)
		if iv == nil {
			unsupported("reflectlite.Swapper of a non-slice")
		}
		sl, ok := iv.V.(Slice)
		if !ok {
			unsupported("reflectlite.Swapper of a non-slice")
		}
		ex.setResult(f, call, isDefer, &Closure{Native: "swapper", Recv: sl})
		return nil, true
	})
	// ---- verifrt primitives ----
	reg(modPath+"/verifrt.intOf", func(ex *Exec, st *State, th *Thread, f *Frame, fn *ssa.Function, args []Value, call *ssa.Call, isDefer bool) ([]*State, bool) {
		iv, _ := args[0].(*Iface)
		res := &Agg{E: []Value{BVC(64, 0), FalseT, FalseT}}
		if iv != nil {
			if t, ok := iv.V.(*Term); ok && t.S.K == SBV && isInteger(iv.T) {
				sg := isSigned(iv.T)
				res = &Agg{E: []Value{ex.ctx.Resize(t, 64, sg), TrueT, BoolC(!sg)}}
			}
		}
		ex.setResult(f, call, isDefer, res)
		return nil, true
	})
	reg(modPath+"/verifrt.strOf", func(ex *Exec, st *State, th *Thread, f *Frame, fn *ssa.Function, args []Value, call *ssa.Call, isDefer bool) ([]*State, bool) {
		iv, _ := args[0].(*Iface)
		res := &Agg{E: []Value{mkStr(""), FalseT}}
		if iv != nil {
			if s, ok := iv.V.(*Str); ok {
				res = &Agg{E: []Value{s, TrueT}}
			}
		}
		ex.setResult(f, call, isDefer, res)
		return nil, true
	})
	reg(modPath+"/verifrt.boolOf", func(ex *Exec, st *State, th *Thread, f *Frame, fn *ssa.Function, args []Value, call *ssa.Call, isDefer bool) ([]*State, bool) {
		iv, _ := args[0].(*Iface)
		res := &Agg{E: []Value{FalseT, FalseT}}
		if iv != nil {
			if t, ok := iv.V.(*Term); ok && t.S.K == SBool {
				res = &Agg{E: []Value{t, TrueT}}
			}
		}
		ex.setResult(f, call, isDefer, res)
		return nil, true
	})
	reg(modPath+"/verifrt.opaque", func(ex *Exec, st *State, th *Thread, f *Frame, fn *ssa.Function, args []Value, call *ssa.Call, isDefer bool) ([]*State, bool) {
		ex.setResult(f, call, isDefer, mkStr("?"))
		return nil, true
	})
}

var _ = types.Typ
var _ = strings.Contains
