package main

import (
	"golang.org/x/tools/go/ssa"
)

// Liveness of SSA values (by local slot) so that state merging ignores dead temporaries.

type liveInfo struct {
	in  [][]uint64 // per block: live-in (after phis)
	out [][]uint64
}

func (fi *FnInfo) slotOf(v ssa.Value) int {
	if i, ok := fi.idx[v]; ok {
		return i
	}
	return -1
}

func bsSet(b []uint64, i int)      { b[i/64] |= 1 << uint(i%64) }
func bsClr(b []uint64, i int)      { b[i/64] &^= 1 << uint(i%64) }
func bsHas(b []uint64, i int) bool { return b[i/64]&(1<<uint(i%64)) != 0 }

func (p *Program) liveness(fn *ssa.Function) *liveInfo {
	fi := p.info(fn)
	fi.liveOnce.Do(func() {
		words := (fi.n + 63) / 64
		if words == 0 {
			words = 1
		}
		nb := len(fn.Blocks)
		li := &liveInfo{in: make([][]uint64, nb), out: make([][]uint64, nb)}
		for i := range li.in {
			li.in[i] = make([]uint64, words)
			li.out[i] = make([]uint64, words)
		}
		var ops []*ssa.Value
		changed := true
		tmp := make([]uint64, words)
		for changed {
			changed = false
			for bi := nb - 1; bi >= 0; bi-- {
				b := fn.Blocks[bi]
				// out = union over succs of (in(succ) + phi operands for this edge)
				for w := range tmp {
					tmp[w] = 0
				}
				for si, s := range b.Succs {
					for w := range tmp {
						tmp[w] |= li.in[s.Index][w]
					}
					pi := predIndex(b, s, si)
					for _, in := range s.Instrs {
						phi, ok := in.(*ssa.Phi)
						if !ok {
							break
						}
						if k := fi.slotOf(phi.Edges[pi]); k >= 0 {
							bsSet(tmp, k)
						}
					}
				}
				for w := range tmp {
					if tmp[w] != li.out[bi][w] {
						li.out[bi][w] = tmp[w]
						changed = true
					}
				}
				// in = (out - defs) + uses, walking backwards over non-phi instrs; phis define
				cur := append([]uint64(nil), tmp...)
				for ii := len(b.Instrs) - 1; ii >= 0; ii-- {
					in := b.Instrs[ii]
					if v, ok := in.(ssa.Value); ok {
						if k := fi.slotOf(v); k >= 0 {
							bsClr(cur, k)
						}
					}
					if _, ok := in.(*ssa.Phi); ok {
						continue
					}
					ops = in.Operands(ops[:0])
					for _, o := range ops {
						if *o == nil {
							continue
						}
						if k := fi.slotOf(*o); k >= 0 {
							bsSet(cur, k)
						}
					}
				}
				// live-in "after phis": phi results that are used later stay live; add them back
				// by recomputing from the first non-phi instruction
				cur2 := append([]uint64(nil), tmp...)
				for ii := len(b.Instrs) - 1; ii >= fi.firstNon[bi]; ii-- {
					in := b.Instrs[ii]
					if v, ok := in.(ssa.Value); ok {
						if k := fi.slotOf(v); k >= 0 {
							bsClr(cur2, k)
						}
					}
					ops = in.Operands(ops[:0])
					for _, o := range ops {
						if *o == nil {
							continue
						}
						if k := fi.slotOf(*o); k >= 0 {
							bsSet(cur2, k)
						}
					}
				}
				_ = cur2
				for w := range cur {
					if cur[w] != li.in[bi][w] {
						li.in[bi][w] = cur[w]
						changed = true
					}
				}
			}
		}
		fi.live = li
	})
	return fi.live
}

// liveAt returns the set of slots live just before instruction ip of block b.
func (p *Program) liveAt(fn *ssa.Function, b *ssa.BasicBlock, ip int) []uint64 {
	li := p.liveness(fn)
	fi := p.info(fn)
	cur := append([]uint64(nil), li.out[b.Index]...)
	var ops []*ssa.Value
	for ii := len(b.Instrs) - 1; ii >= ip; ii-- {
		in := b.Instrs[ii]
		if v, ok := in.(ssa.Value); ok {
			if k := fi.slotOf(v); k >= 0 {
				bsClr(cur, k)
			}
		}
		if _, ok := in.(*ssa.Phi); ok {
			continue
		}
		ops = in.Operands(ops[:0])
		for _, o := range ops {
			if *o == nil {
				continue
			}
			if k := fi.slotOf(*o); k >= 0 {
				bsSet(cur, k)
			}
		}
	}
	return cur
}

func (fi *FnInfo) slotOfInstr(in ssa.Instruction) int {
	if v, ok := in.(ssa.Value); ok {
		return fi.slotOf(v)
	}
	return -1
}
