package main

import (
	"fmt"
	"os"
	"strings"
)

// explore runs the given states depth-first until they end or stop() holds.
func (ex *Exec) explore(init []*State, stop func(*State) bool) []*State {
	work := append([]*State(nil), init...)
	var out []*State
	for len(work) > 0 {
		st := work[len(work)-1]
		work = work[:len(work)-1]
		for !st.ended {
			if ex.abort {
				st.ended = true
				break
			}
			if stop != nil && stop(st) {
				out = append(out, st)
				break
			}
			extra := ex.safeStep(st)
			work = append(work, extra...)
			if ex.cfg.Verbose && ex.rep.Steps%200000 == 0 && ex.sol != nil {
				site := "?"
				if !st.ended && len(st.thread().stack) > 0 {
					site = ex.site(st.thread().top())
				}
				fmt.Fprintf(os.Stderr, "  progress: steps=%d forks=%d lazy=%d merges=%d mergefail=%d queries=%d (%.1fs) depth=%d work=%d pc=%d at %s\n", ex.rep.Steps, ex.rep.Forks, ex.rep.LazyForks, ex.rep.Merges, ex.rep.MergeFails, ex.sol.Stats.Queries, ex.sol.Stats.Dur.Seconds(), ex.depth, len(work), len(st.pc), site)
			}
		}
	}
	return out
}

func (ex *Exec) safeStep(st *State) (extra []*State) {
	defer func() {
		if r := recover(); r != nil {
			if ep, ok := r.(execPanic); ok {
				site := "?"
				if len(st.threads) > 0 && len(st.thread().stack) > 0 {
					site = ex.site(st.thread().top())
				}
				msg := "unsupported: " + ep.msg + " at " + site
				if ex.sol != nil && !ex.pathFeasible(st) {
					st.ended = true
					ex.rep.Infeasible++
				} else {
					ex.rep.Unsupported = append(ex.rep.Unsupported, msg)
					if !st.ended {
						ex.endPath(st, "unsupported")
					}
				}
				extra = nil
				return
			}
			panic(r)
		}
	}()
	return ex.step(st)
}

func sameValue(a, b Value) bool {
	switch x := a.(type) {
	case nil:
		return b == nil
	case *Term:
		y, ok := b.(*Term)
		return ok && SameTerm(x, y)
	case *Agg:
		y, ok := b.(*Agg)
		return ok && x == y
	case Ptr:
		y, ok := b.(Ptr)
		return ok && ptrEq(x, y)
	case Slice:
		y, ok := b.(Slice)
		return ok && x.Nil == y.Nil && x.Off == y.Off && x.Len == y.Len && x.Cap == y.Cap && ptrEq(x.Arr, y.Arr)
	case *Str:
		y, ok := b.(*Str)
		if !ok {
			return false
		}
		if x == y {
			return true
		}
		return !x.Sym && !y.Sym && x.S == y.S
	case MapRef:
		y, ok := b.(MapRef)
		return ok && x == y
	case ChanRef:
		y, ok := b.(ChanRef)
		return ok && x == y
	case *Iface:
		y, ok := b.(*Iface)
		return ok && x == y
	case *Closure:
		y, ok := b.(*Closure)
		return ok && x == y
	case *MapIter:
		y, ok := b.(*MapIter)
		return ok && x == y
	case *MapObj:
		y, ok := b.(*MapObj)
		return ok && x == y
	case *ChanObj:
		y, ok := b.(*ChanObj)
		return ok && x == y
	case *PanicInfo:
		y, ok := b.(*PanicInfo)
		return ok && x == y
	}
	return false
}

func stateSig(s *State) string {
	var sb strings.Builder
	for _, t := range s.threads {
		fmt.Fprintf(&sb, "T%d:", t.id)
		for _, f := range t.stack {
			fmt.Fprintf(&sb, "%p.%d.%d/", f.fn, f.block.Index, f.ip)
		}
		if t.panicking != nil {
			sb.WriteString("!")
		}
	}
	fmt.Fprintf(&sb, "|n%d|s%d", len(s.nondets), s.nsplit)
	return sb.String()
}

// mergeStates merges states that sit at the same program point wherever their
// values can be combined with ite; the rest is returned unmerged.
func (ex *Exec) mergeStates(list []*State) []*State {
	if len(list) <= 1 {
		return list
	}
	groups := map[string][]*State{}
	var order []string
	for _, s := range list {
		k := stateSig(s)
		if _, ok := groups[k]; !ok {
			order = append(order, k)
		}
		groups[k] = append(groups[k], s)
	}
	var out []*State
	for _, k := range order {
		g := groups[k]
		for len(g) > 0 {
			acc := g[0]
			var left []*State
			for _, s := range g[1:] {
				if m, ok := ex.mergePair(acc, s); ok {
					acc = m
					ex.rep.Merges++
				} else {
					left = append(left, s)
					ex.rep.MergeFails++
				}
			}
			out = append(out, acc)
			g = left
		}
	}
	return out
}

func (ex *Exec) mergeMapObj(c *Term, a, b *MapObj) (*MapObj, bool) {
	// entries of a (guarded by c) followed by entries of b (guarded by !c);
	// common prefix entries with identical keys are merged in place.
	n := 0
	for n < len(a.E) && n < len(b.E) && sameValue(a.E[n].K, b.E[n].K) {
		n++
	}
	out := make([]MapEntry, 0, len(a.E)+len(b.E)-n)
	for i := 0; i < n; i++ {
		v, ok := ex.mergeValue(c, a.E[i].V, b.E[i].V)
		if !ok {
			return nil, false
		}
		out = append(out, MapEntry{K: a.E[i].K, V: v, Present: ex.ctx.Ite(c, a.E[i].Present, b.E[i].Present)})
	}
	for _, e := range a.E[n:] {
		out = append(out, MapEntry{K: e.K, V: e.V, Present: ex.ctx.And(c, e.Present)})
	}
	nc := ex.ctx.Not(c)
	for _, e := range b.E[n:] {
		out = append(out, MapEntry{K: e.K, V: e.V, Present: ex.ctx.And(nc, e.Present)})
	}
	return &MapObj{E: out}, true
}

func (ex *Exec) mergeHeapVal(c *Term, a, b Value) (Value, bool) {
	if sameValue(a, b) {
		return a, true
	}
	if ma, ok := a.(*MapObj); ok {
		if mb, ok := b.(*MapObj); ok {
			return ex.mergeMapObj(c, ma, mb)
		}
		return nil, false
	}
	if _, ok := a.(*ChanObj); ok {
		return nil, false
	}
	return ex.mergeValue(c, a, b)
}

func (ex *Exec) mergePair(a, b *State) (*State, bool) {
	m, why := ex.mergePair2(a, b)
	if m == nil && debugMerge {
		fmt.Fprintf(os.Stderr, "merge failed: %s at %s\n", why, ex.site(a.thread().top()))
	}
	return m, m != nil
}

var debugMerge = os.Getenv("GOSYM_DEBUG_MERGE") != ""

func (ex *Exec) mergePair2(a, b *State) (*State, string) {
	if len(a.threads) != len(b.threads) || len(a.nondets) != len(b.nondets) {
		return nil, "r1"
	}
	for i := range a.nondets {
		if a.nondets[i].T != b.nondets[i].T {
			return nil, "r2"
		}
	}
	k := 0
	for k < len(a.pc) && k < len(b.pc) && a.pc[k] == b.pc[k] {
		k++
	}
	cA := ex.ctx.AndN(a.pc[k:])
	cB := ex.ctx.AndN(b.pc[k:])
	if cA.Op == OConst {
		// a's condition is 'true' relative to the prefix: b must be infeasible or identical; do not merge
		return nil, "r3"
	}
	ns := *a
	// frames
	ns.threads = make([]*Thread, len(a.threads))
	for ti := range a.threads {
		ta, tb := a.threads[ti], b.threads[ti]
		if len(ta.stack) != len(tb.stack) || ta.done != tb.done || ta.blocked != tb.blocked {
			return nil, "r4"
		}
		nt := *ta
		nt.stack = make([]*Frame, len(ta.stack))
		for fi := range ta.stack {
			fa, fb := ta.stack[fi], tb.stack[fi]
			if len(fa.defers) != len(fb.defers) {
				return nil, "r5"
			}
			for di := range fa.defers {
				if !sameValue(fa.defers[di].fn, fb.defers[di].fn) || len(fa.defers[di].args) != len(fb.defers[di].args) {
					return nil, "r6"
				}
				for ai := range fa.defers[di].args {
					if !sameValue(fa.defers[di].args[ai], fb.defers[di].args[ai]) {
						return nil, "r7"
					}
				}
			}
			nf := *fa
			var nl []Value
			// liveness: for the top frame at its current point; for caller frames just
			// before the pending call's successor (the call result itself is live-in there)
			lip := fa.ip
			live := ex.p.liveAt(fa.fn, fa.block, lip)
			for i := range fa.locals {
				if sameValue(fa.locals[i], fb.locals[i]) {
					continue
				}
				if !bsHas(live, i) && !(fi < len(ta.stack)-1 && fa.ip < len(fa.block.Instrs) && ex.p.info(fa.fn).slotOfInstr(fa.block.Instrs[fa.ip]) == i) {
					if nl == nil {
						nl = make([]Value, len(fa.locals))
						copy(nl, fa.locals)
					}
					nl[i] = nil
					continue
				}
				m, ok := ex.mergeValue(cA, fa.locals[i], fb.locals[i])
				if !ok {
					return nil, "r8"
				}
				if nl == nil {
					nl = make([]Value, len(fa.locals))
					copy(nl, fa.locals)
				}
				nl[i] = m
			}
			if nl != nil {
				nf.locals = nl
			}
			// loop counters: keep the max
			if fb.loops != nil {
				nf.loops = map[int]int{}
				for k2, v := range fa.loops {
					nf.loops[k2] = v
				}
				for k2, v := range fb.loops {
					if v > nf.loops[k2] {
						nf.loops[k2] = v
					}
				}
			}
			nt.stack[fi] = &nf
		}
		ns.threads[ti] = &nt
	}
	// heap
	nh := make(map[int]Value, len(a.heap)+4)
	for obj, va := range a.heap {
		vb, ok := b.heap[obj]
		if !ok {
			if base, okb := ex.p.baseHeap[obj]; okb {
				vb = base
			} else {
				nh[obj] = va // allocated only on a's side
				continue
			}
		}
		m, ok := ex.mergeHeapVal(cA, va, vb)
		if !ok {
			if debugMerge {
				fmt.Fprintf(os.Stderr, "   heap obj %d: %s  VS  %s\n", obj, fmtValue(va), fmtValue(vb))
			}
			return nil, "r9"
		}
		nh[obj] = m
	}
	for obj, vb := range b.heap {
		if _, ok := a.heap[obj]; ok {
			continue
		}
		if base, okb := ex.p.baseHeap[obj]; okb {
			m, ok := ex.mergeHeapVal(cA, base, vb)
			if !ok {
				return nil, "r10"
			}
			nh[obj] = m
		} else {
			nh[obj] = vb
		}
	}
	ns.heap = nh
	if b.nextObj > ns.nextObj {
		ns.nextObj = b.nextObj
	}
	// stub state
	if len(a.stub) != len(b.stub) {
		return nil, "r11"
	}
	if len(a.stub) > 0 {
		nstub := map[string]Value{}
		for k2, va := range a.stub {
			vb, ok := b.stub[k2]
			if !ok {
				return nil, "r12"
			}
			m, ok := ex.mergeHeapVal(cA, va, vb)
			if !ok {
				return nil, "r13"
			}
			nstub[k2] = m
		}
		ns.stub = nstub
	}
	ns.pc = append(append([]*Term{}, a.pc[:k]...), ex.ctx.Or(cA, cB))
	if ns.model == nil {
		ns.model = b.model
	}
	ns.reached = unionStr(a.reached, b.reached)
	ns.notes = unionStr(a.notes, b.notes)
	if b.steps > ns.steps {
		ns.steps = b.steps
	}
	return &ns, ""
}

func unionStr(a, b []string) []string {
	seen := map[string]bool{}
	var out []string
	for _, s := range a {
		if !seen[s] {
			seen[s] = true
			out = append(out, s)
		}
	}
	for _, s := range b {
		if !seen[s] {
			seen[s] = true
			out = append(out, s)
		}
	}
	return out
}
