package main

import (
	"runtime/pprof"
	"encoding/json"
	"flag"
	"fmt"
	"os"
	"path/filepath"
	"sort"
	"strings"
	"sync"
	"time"

	"golang.org/x/tools/go/packages"
	"golang.org/x/tools/go/ssa"
	"golang.org/x/tools/go/ssa/ssautil"
)

const modPath = "github.com/herohde/morlock"

var (
	repoDir  = "/repo"
	verifDir = "/verif"
	harnessRoot = "/verif/harness"
)

type Obligation struct {
	Name       string   `json:"name"`
	Pkg        string   `json:"pkg"`
	Entry      string   `json:"entry"`
	Tiers      []string `json:"tiers"`
	NoMerge    []string `json:"nomerge"`
	Unwind     int      `json:"unwind"`
	TimeoutMs  int      `json:"timeout_ms"`
	Solver     string   `json:"solver"`
	NoMergeIfs bool     `json:"no_merge_ifs"`
	NoMergeCalls bool   `json:"no_merge_calls"`
	EagerIf    bool     `json:"eager_if"`
	Replace    map[string]string `json:"replace"`
	Threads    bool     `json:"threads"`
	Preempt    int      `json:"preempt"`
	SchedRR    bool     `json:"sched_rr"`
	TimeZero   bool     `json:"time_zero"`
	MaxSteps   int      `json:"max_steps"`
	Bound      string   `json:"bound"`
	MaxViol    int      `json:"max_viol"`
	Twin       bool     `json:"twin"` // vacuity twin: must be violated
	Env        map[string]string `json:"env"`
}

type Spec struct {
	Property    string       `json:"property"`
	Assumptions []string     `json:"assumptions"`
	Outside     []string     `json:"outside"`
	Obligations []Obligation `json:"obligations"`
	ExtraPkgs   []string     `json:"extra_pkgs"`
}

type KnownFinding struct {
	Property   string `json:"property"`
	Obligation string `json:"obligation"`
	Msg        string `json:"msg"`
	What       string `json:"what"`
	Status     string `json:"status"` // "known" | "fixed"
	Commit     string `json:"commit,omitempty"`
}

func hasTier(o *Obligation, tier string) bool {
	if len(o.Tiers) == 0 {
		return true
	}
	for _, t := range o.Tiers {
		if t == tier {
			return true
		}
	}
	return false
}

// ---------------- loading ----------------

func harnessFiles(pkg string) []string {
	dir := filepath.Join(harnessRoot, pkg)
	ents, _ := os.ReadDir(dir)
	var out []string
	for _, e := range ents {
		if strings.HasSuffix(e.Name(), ".go") {
			out = append(out, filepath.Join(dir, e.Name()))
		}
	}
	sort.Strings(out)
	return out
}

func pkgNameOf(dir string) string {
	ents, _ := os.ReadDir(dir)
	for _, e := range ents {
		if strings.HasSuffix(e.Name(), ".go") && !strings.HasSuffix(e.Name(), "_test.go") {
			b, _ := os.ReadFile(filepath.Join(dir, e.Name()))
			for _, l := range strings.Split(string(b), "\n") {
				l = strings.TrimSpace(l)
				if strings.HasPrefix(l, "package ") {
					return strings.Fields(l)[1]
				}
			}
		}
	}
	return filepath.Base(dir)
}

const primsSym = `package %s

func nondetU64(name string) uint64
func nondetU32(name string) uint32
func nondetU16(name string) uint16
func nondetU8(name string) uint8
func nondetI64(name string) int64
func nondetI32(name string) int32
func nondetI16(name string) int16
func nondetI8(name string) int8
func nondetInt(name string) int
func nondetBool(name string) bool
func nondetF32(name string) float32
func nondetF64(name string) float64
func nondetRune(name string) rune
func verifAssume(c bool)
func verifAssert(c bool, msg string)
func verifReach(tag string)
func verifNote(s string)
func verifSplit(v uint64, lo, hi uint64) uint64
func verifIsSymbolic(v uint64) bool
func verifAnd(a, b bool) bool
func verifQuick() bool
func verifNative() bool
func verifShared(p *uint64)
func verifJoinAll()
func verifSeed() uint64
func verifOr(a, b bool) bool
func verifIte(c bool, a, b uint64) uint64
`

const primsReplay = `package %s

import "math"

var verifVals []uint64
var verifPos int

// function replacements of the obligation being replayed (see replay.go, nativeReplacements)
var verifReplaceOn = map[string]bool{}

func verifNext() uint64 {
	if verifPos >= len(verifVals) {
		panic("VERIF-REPLAY-EXHAUSTED")
	}
	v := verifVals[verifPos]
	verifPos++
	return v
}
func nondetU64(name string) uint64   { return verifNext() }
func nondetU32(name string) uint32   { return uint32(verifNext()) }
func nondetU16(name string) uint16   { return uint16(verifNext()) }
func nondetU8(name string) uint8     { return uint8(verifNext()) }
func nondetI64(name string) int64    { return int64(verifNext()) }
func nondetI32(name string) int32    { return int32(verifNext()) }
func nondetI16(name string) int16    { return int16(verifNext()) }
func nondetI8(name string) int8      { return int8(verifNext()) }
func nondetInt(name string) int      { return int(verifNext()) }
func nondetBool(name string) bool    { return verifNext() != 0 }
func nondetF32(name string) float32  { return math.Float32frombits(uint32(verifNext())) }
func nondetF64(name string) float64  { return math.Float64frombits(verifNext()) }
func nondetRune(name string) rune    { return rune(int32(uint32(verifNext()))) }
func verifAssume(c bool) {
	if !c {
		panic("VERIF-ASSUME-FAILED")
	}
}
func verifAssert(c bool, msg string) {
	if !c {
		panic("VERIF-ASSERT-FAILED: " + msg)
	}
}
func verifReach(tag string)                     {}
func verifNote(s string)                        {}
func verifSplit(v uint64, lo, hi uint64) uint64 { return v }
func verifIsSymbolic(v uint64) bool             { return false }
func verifAnd(a, b bool) bool                   { return a && b }
var verifQuickFlag bool
var verifSeedVal uint64

func verifQuick() bool                          { return verifQuickFlag }
func verifNative() bool                         { return true }
func verifShared(p *uint64)                     {}
func verifSeed() uint64                         { return verifSeedVal }
func verifOr(a, b bool) bool                    { return a || b }
func verifIte(c bool, a, b uint64) uint64 {
	if c {
		return a
	}
	return b
}
`

func buildOverlay(pkgs []string, replay bool) map[string][]byte {
	ov := map[string][]byte{}
	for _, p := range pkgs {
		dir := filepath.Join(repoDir, p)
		name := pkgNameOf(dir)
		for _, hf := range harnessFiles(p) {
			b, err := os.ReadFile(hf)
			if err != nil {
				continue
			}
			ov[filepath.Join(dir, "zz_verif_"+filepath.Base(hf))] = b
		}
		if replay {
			ov[filepath.Join(dir, "zz_verif_prims.go")] = []byte(fmt.Sprintf(primsReplay, name))
		} else {
			ov[filepath.Join(dir, "zz_verif_prims.go")] = []byte(fmt.Sprintf(primsSym, name))
		}
	}
	// runtime replacement package
	rt := filepath.Join(harnessRoot, "verifrt")
	ents, _ := os.ReadDir(rt)
	for _, e := range ents {
		if strings.HasSuffix(e.Name(), ".go") {
			b, _ := os.ReadFile(filepath.Join(rt, e.Name()))
			ov[filepath.Join(repoDir, "verifrt", e.Name())] = b
		}
	}
	return ov
}

func loadProgram(pkgs []string) (*Program, error) {
	ov := buildOverlay(pkgs, false)
	cfg := &packages.Config{
		Mode:    packages.LoadAllSyntax,
		Dir:     repoDir,
		Overlay: ov,
		Env:     append(os.Environ(), "GOFLAGS=-mod=mod", "GOPROXY=off", "GOSUMDB=off", "GOTOOLCHAIN=local"),
	}
	var pats []string
	for _, p := range pkgs {
		pats = append(pats, "./"+p)
	}
	hasRT := false
	for k := range ov {
		if strings.HasPrefix(k, filepath.Join(repoDir, "verifrt")) {
			hasRT = true
		}
	}
	if hasRT {
		pats = append(pats, "./verifrt")
	}
	lp, err := packages.Load(cfg, pats...)
	if err != nil {
		return nil, err
	}
	var errs []string
	packages.Visit(lp, nil, func(p *packages.Package) {
		for _, e := range p.Errors {
			errs = append(errs, e.Error())
		}
	})
	if len(errs) > 0 {
		return nil, fmt.Errorf("package load errors:\n%s", strings.Join(errs, "\n"))
	}
	prog, spkgs := ssautil.AllPackages(lp, ssa.InstantiateGenerics)
	prog.Build()
	p := &Program{prog: prog, pkgs: map[string]*ssa.Package{}, globals: map[*ssa.Global]int{}, baseHeap: map[int]Value{}, tabCache: map[*Agg]*Table{}}
	for _, sp := range spkgs {
		if sp != nil {
			p.pkgs[sp.Pkg.Path()] = sp
		}
	}
	for _, sp := range prog.AllPackages() {
		p.pkgs[sp.Pkg.Path()] = sp
	}
	return p, nil
}

// runInits allocates all globals and runs the init functions of the module's
// packages concretely in the interpreter.
func (p *Program) runInits(cfg *Config) error {
	st := &State{heap: map[int]Value{}}
	// allocate globals (zero values); unsupported types get a nil cell
	for _, sp := range p.prog.AllPackages() {
		names := make([]string, 0, len(sp.Members))
		for n := range sp.Members {
			names = append(names, n)
		}
		sort.Strings(names)
		for _, n := range names {
			g, ok := sp.Members[n].(*ssa.Global)
			if !ok {
				continue
			}
			st.nextObj++
			id := st.nextObj
			p.globals[g] = id
			func() {
				defer func() {
					if r := recover(); r != nil {
						st.heap[id] = nil
					}
				}()
				st.heap[id] = zeroValue(derefType(g.Type()))
			}()
		}
	}
	icfg := *cfg
	icfg.MergeCalls = false
	icfg.MergeIfs = false
	icfg.Unwind = 1 << 30
	icfg.MaxSteps = 0
	ex := &Exec{p: p, ctx: NewTermCtx(), cfg: &icfg, rep: NewReport()}
	ex.initMode = true
	// order: dependencies first (ssa init functions call their imports' init; we
	// intercept init calls of non-module packages)
	var mods []*ssa.Package
	for _, sp := range p.prog.AllPackages() {
		if strings.HasPrefix(sp.Pkg.Path(), modPath) {
			mods = append(mods, sp)
		}
	}
	sort.Slice(mods, func(i, j int) bool { return mods[i].Pkg.Path() < mods[j].Pkg.Path() })
	for _, sp := range mods {
		initFn := sp.Func("init")
		if initFn == nil {
			continue
		}
		st.threads = []*Thread{{id: 0}}
		st.cur = 0
		st.ended = false
		ex.pushFrame(st, st.threads[0], initFn, nil, nil, nil)
		ex.explore([]*State{st}, nil)
		if len(ex.rep.Unsupported) > 0 {
			return fmt.Errorf("init of %s: %s", sp.Pkg.Path(), ex.rep.Unsupported[0])
		}
		if len(ex.rep.Violations) > 0 {
			return fmt.Errorf("init of %s panicked: %s", sp.Pkg.Path(), ex.rep.Violations[0].Msg)
		}
	}
	p.baseHeap = st.heap
	p.baseNext = st.nextObj
	p.initSteps = ex.rep.Steps
	return nil
}

// ---------------- tasks ----------------

type Task struct {
	ob     *Obligation
	prefix []uint64
}

type ObResult struct {
	ob       *Obligation
	rep      *Report
	stats    SolverStats
	tasks    int
	wall     time.Duration
}

func mergeReports(dst, src *Report) {
	dst.Paths += src.Paths
	dst.Asserts += src.Asserts
	dst.Proven += src.Proven
	dst.Trivial += src.Trivial
	dst.Violations = append(dst.Violations, src.Violations...)
	dst.Unknowns = append(dst.Unknowns, src.Unknowns...)
	dst.Unsupported = append(dst.Unsupported, src.Unsupported...)
	dst.UnwoundOut += src.UnwoundOut
	dst.AssumePruned += src.AssumePruned
	for k, v := range src.Reached {
		dst.Reached[k] += v
	}
	for _, s := range src.Samples {
		if len(dst.Samples) < 8 {
			dst.Samples = append(dst.Samples, s)
		}
	}
	for _, w := range src.Witnesses {
		if len(dst.Witnesses) < 2 {
			dst.Witnesses = append(dst.Witnesses, w)
		}
	}
	dst.Forks += src.Forks
	dst.Merges += src.Merges
	dst.MergeFails += src.MergeFails
	dst.Steps += src.Steps
	for k := range src.Funcs {
		dst.Funcs[k] = true
	}
	for k := range src.Stubs {
		dst.Stubs[k] = true
	}
	if src.MaxTermSize > dst.MaxTermSize {
		dst.MaxTermSize = src.MaxTermSize
	}
}

func runTask(p *Program, t Task, base Config, wid int) (*Report, SolverStats, [][]uint64) {
	cfg := base
	ob := t.ob
	cfg.MergeCalls = !ob.NoMergeCalls
	cfg.MergeIfs = !ob.NoMergeIfs
	cfg.LazyIf = !ob.EagerIf
	cfg.Replace = ob.Replace
	cfg.Threads = ob.Threads
	cfg.MaxPreempt = ob.Preempt
	cfg.SchedRR = ob.SchedRR
	cfg.TimeZero = ob.TimeZero
	cfg.HarnessPkg = modPath + "/" + ob.Pkg
	cfg.NoMerge = ob.NoMerge
	if ob.Unwind > 0 {
		cfg.Unwind = ob.Unwind
	}
	if ob.TimeoutMs > 0 {
		cfg.TimeoutMs = ob.TimeoutMs
	}
	if ob.Solver != "" && base.SolverKind == "" {
		cfg.SolverKind = ob.Solver
	}
	if ob.MaxSteps > 0 {
		cfg.MaxSteps = ob.MaxSteps
	}
	if ob.MaxViol > 0 {
		cfg.MaxViol = ob.MaxViol
	}
	cfg.SplitPrefix = t.prefix
	if cfg.SplitPrefix == nil {
		cfg.SplitPrefix = []uint64{}
	}
	logp := ""
	if cfg.LogSMT != "" {
		logp = fmt.Sprintf("%s.%s.%d.smt2", cfg.LogSMT, ob.Name, wid)
	}
	sol := NewSolver(cfg.SolverKind, cfg.TimeoutMs, logp)
	defer sol.Close()
	ex := &Exec{p: p, ctx: NewTermCtx(), sol: sol, cfg: &cfg, rep: NewReport(), splitTasks: true}
	ex.applyNoMerge()
	sp := p.pkgs[modPath+"/"+ob.Pkg]
	if sp == nil {
		ex.rep.Unsupported = append(ex.rep.Unsupported, "package not loaded: "+ob.Pkg)
		return ex.rep, sol.Stats, nil
	}
	fn := sp.Func(ob.Entry)
	if fn == nil {
		ex.rep.Unsupported = append(ex.rep.Unsupported, "entry not found: "+ob.Entry)
		return ex.rep, sol.Stats, nil
	}
	ctr := p.baseNext
	st := &State{heap: map[int]Value{}, nextObj: p.baseNext, objCtr: &ctr, model: Model{}}
	st.threads = []*Thread{{id: 0}}
	ex.pushFrame(st, st.threads[0], fn, nil, nil, nil)
	ex.explore([]*State{st}, nil)
	return ex.rep, sol.Stats, ex.rep.SubTasks
}

func (ex *Exec) applyNoMerge() {
	// mark functions by substring match lazily: wrap info lookup
	ex.noMergePats = ex.cfg.NoMerge
}

// ---------------- main ----------------

func main() {
	if r := os.Getenv("GOSYM_REPO"); r != "" {
		repoDir = r // scratch worktree of the repository (used when running against seeded changes)
	}
	if h := os.Getenv("GOSYM_HARNESS"); h != "" {
		harnessRoot = h // snapshot of the harness directory (so that edits do not disturb a long run)
	}
	if len(os.Args) < 2 {
		fmt.Fprintln(os.Stderr, "usage: gosym run|selftest ...")
		os.Exit(2)
	}
	switch os.Args[1] {
	case "run":
		os.Exit(cmdRun(os.Args[2:]))
	default:
		fmt.Fprintln(os.Stderr, "unknown command")
		os.Exit(2)
	}
}

func cmdRun(args []string) int {
	fs := flag.NewFlagSet("run", flag.ExitOnError)
	specPath := fs.String("spec", "", "spec json")
	tier := fs.String("tier", "quick", "quick|thorough")
	only := fs.String("only", "", "run only the named obligation(s), comma separated")
	jobs := fs.Int("j", 16, "workers")
	verbose := fs.Bool("v", false, "verbose")
	solver := fs.String("solver", "", "override solver (z3|z3-new|cvc5)")
	logsmt := fs.String("logsmt", "", "prefix for smt transcripts")
	noReplay := fs.Bool("noreplay", false, "skip native replay")
	evidence := fs.String("evidence", "", "evidence output path (default /verif/evidence/<id>.json)")
	cpuprof := fs.String("cpuprofile", "", "write cpu profile")
	fs.Parse(args)
	if *cpuprof != "" {
		pf, _ := os.Create(*cpuprof)
		pprof.StartCPUProfile(pf)
		go func() {
			time.Sleep(45 * time.Second)
			pprof.StopCPUProfile()
			pf.Close()
		}()
	}
	t0 := time.Now()
	b, err := os.ReadFile(*specPath)
	if err != nil {
		fmt.Println("INCONCLUSIVE cannot read spec:", err)
		return 2
	}
	var spec Spec
	if err := json.Unmarshal(b, &spec); err != nil {
		fmt.Println("INCONCLUSIVE bad spec:", err)
		return 2
	}
	seed := 0
	fmt.Sscan(os.Getenv("VERIF_SEED"), &seed)
	onlySet := map[string]bool{}
	for _, o := range strings.Split(*only, ",") {
		if o != "" {
			onlySet[o] = true
		}
	}
	var obs []*Obligation
	pkgSet := map[string]bool{}
	for i := range spec.Obligations {
		o := &spec.Obligations[i]
		if len(onlySet) > 0 {
			if !onlySet[o.Name] {
				continue
			}
		} else if !hasTier(o, *tier) {
			continue
		}
		obs = append(obs, o)
		pkgSet[o.Pkg] = true
	}
	for _, p := range spec.ExtraPkgs {
		pkgSet[p] = true
	}
	var pkgs []string
	for p := range pkgSet {
		pkgs = append(pkgs, p)
	}
	sort.Strings(pkgs)
	if len(obs) == 0 {
		fmt.Println("INCONCLUSIVE no obligations selected")
		return 2
	}
	prog, err := loadProgram(pkgs)
	if err != nil {
		fmt.Println("INCONCLUSIVE cannot load/compile harness against the current tree:", err)
		writeEvidence(&spec, *tier, seed, nil, nil, time.Since(t0), *evidence, []string{"load failed: " + err.Error()}, 0)
		return 2
	}
	base := Config{Tier: *tier, Seed: uint64(seed), Unwind: 300, TimeoutMs: 60000, SolverKind: *solver, Verbose: *verbose, LogSMT: *logsmt, MaxViol: 3}
	if err := prog.runInits(&base); err != nil {
		fmt.Println("INCONCLUSIVE package initialisation failed in the interpreter:", err)
		return 2
	}
	tInit := time.Since(t0)
	if *verbose {
		fmt.Fprintf(os.Stderr, "loaded+init in %v (%d init steps)\n", tInit, prog.initSteps)
	}

	// task pool
	results := map[string]*ObResult{}
	for _, o := range obs {
		results[o.Name] = &ObResult{ob: o, rep: NewReport()}
	}
	var mu sync.Mutex
	queue := []Task{}
	var dbgPrefix []uint64
	if dp := os.Getenv("GOSYM_PREFIX"); dp != "" {
		for _, f := range strings.Split(dp, ",") {
			var v uint64
			fmt.Sscan(f, &v)
			dbgPrefix = append(dbgPrefix, v)
		}
	}
	for _, o := range obs {
		queue = append(queue, Task{ob: o, prefix: dbgPrefix})
	}
	pending := 0
	cond := sync.NewCond(&mu)
	var wg sync.WaitGroup
	for w := 0; w < *jobs; w++ {
		wg.Add(1)
		go func(wid int) {
			defer wg.Done()
			for {
				mu.Lock()
				for len(queue) == 0 && pending > 0 {
					cond.Wait()
				}
				if len(queue) == 0 {
					mu.Unlock()
					cond.Broadcast()
					return
				}
				// seed permutes order only
				idx := 0
				if seed != 0 {
					idx = (seed*7919 + len(queue)) % len(queue)
					if idx < 0 {
						idx = -idx
					}
				}
				t := queue[idx]
				queue = append(queue[:idx], queue[idx+1:]...)
				pending++
				mu.Unlock()
				ts := time.Now()
				rep, stats, subs := runTask(prog, t, base, wid)
				mu.Lock()
				r := results[t.ob.Name]
				mergeReports(r.rep, rep)
				r.stats.Add(stats)
				r.tasks++
				r.wall += time.Since(ts)
				for _, s := range subs {
					queue = append(queue, Task{ob: t.ob, prefix: s})
				}
				pending--
				if *verbose {
					fmt.Fprintf(os.Stderr, "[w%d] %s %v: paths=%d asserts=%d proven=%d viol=%d unk=%d unsup=%d q=%d (%.1fs solver, max %.1fs) in %.1fs; +%d subtasks\n", wid, t.ob.Name, t.prefix, rep.Paths, rep.Asserts, rep.Proven, len(rep.Violations), len(rep.Unknowns), len(rep.Unsupported), stats.Queries, stats.Dur.Seconds(), stats.MaxQuery.Seconds(), time.Since(ts).Seconds(), len(subs))
				}
				mu.Unlock()
				cond.Broadcast()
			}
		}(w)
	}
	wg.Wait()

	return finish(&spec, *tier, seed, obs, results, t0, *evidence, *noReplay, prog, *verbose)
}
