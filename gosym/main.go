package main

import (
	"fmt"
	"golang.org/x/tools/go/packages"
	"golang.org/x/tools/go/ssa"
	"golang.org/x/tools/go/ssa/ssautil"
)

func main() {
	cfg := &packages.Config{Mode: packages.LoadAllSyntax, Dir: "/repo"}
	pkgs, err := packages.Load(cfg, "./pkg/board")
	if err != nil {
		panic(err)
	}
	prog, spkgs := ssautil.AllPackages(pkgs, ssa.InstantiateGenerics)
	prog.Build()
	fmt.Println(len(spkgs), spkgs[0].Func("BitMask"))
}
