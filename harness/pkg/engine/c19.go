package engine

import (
	"context"

	"github.com/herohde/morlock/pkg/board"
	"github.com/herohde/morlock/pkg/eval"
	"github.com/herohde/morlock/pkg/search"
)

// C19 (engine part): a move string is accepted by a game exactly when it denotes a legal
// move of the current position; accepted moves are played as the move they denote, rejected
// input leaves the game unchanged.

type movePos struct {
	fen   string
	moves []string
}

var movePositions = []movePos{
	// promotions with and without capture, under-promotions included
	{fen: "r1n1k3/1P6/8/8/8/8/8/4K3 w - - 0 1"},
	// castling, en passant available
	{fen: "r3k2r/8/8/3pP3/8/8/8/R3K2R w KQkq d6 0 1"},
	// a position that has occurred three times: a draw could be claimed, play goes on
	{fen: "rnbqkbnr/pppppppp/8/8/8/8/PPPPPPPP/RNBQKBNR w KQkq - 0 1", moves: []string{"g1f3", "g8f6", "f3g1", "f6g8", "g1f3", "g8f6", "f3g1", "f6g8"}},
	// 100 half-moves on the clock after one more quiet move
	{fen: "7k/8/8/8/8/8/8/K6R w - - 99 80", moves: []string{"h1h2"}},
}

func coordText(m board.Move) []rune {
	files := []rune("hgfedcba")
	ranks := []rune("12345678")
	t := []rune{files[m.From&7], ranks[m.From>>3], files[m.To&7], ranks[m.To>>3]}
	switch m.Promotion {
	case board.Queen:
		t = append(t, 'q')
	case board.Rook:
		t = append(t, 'r')
	case board.Knight:
		t = append(t, 'n')
	case board.Bishop:
		t = append(t, 'b')
	}
	return t
}

func lower(r rune) rune {
	if r >= 'A' && r <= 'Z' {
		return r + 32
	}
	return r
}

type gameSnap struct {
	fen  string
	hash board.ZobristHash
	ply  int
	last board.Move
	has  bool
}

func snapGame(e *Engine) gameSnap {
	b := e.Board()
	l, h := b.LastMove()
	return gameSnap{fen: e.Position(), hash: b.Hash(), ply: b.Ply(), last: l, has: h}
}

func harnessEngineMove(pi int) {
	ctx := context.Background()
	e := New(ctx, "test", "nobody", search.AlphaBeta{Eval: search.Leaf{Eval: eval.Material{}}})
	p := movePositions[pi]
	if err := e.Reset(ctx, p.fen); err != nil {
		panic("bad position")
	}
	for _, m := range p.moves {
		if err := e.Move(ctx, m); err != nil {
			panic("bad history move")
		}
	}
	n := int(verifSplit(uint64(nondetU8("len")), 4, 5))
	rs := make([]rune, n)
	for i := range rs {
		r := nondetRune("rune")
		verifAssume(r >= 0 && r <= 0x10FFFF && !(r >= 0xD800 && r <= 0xDFFF))
		rs[i] = r
	}
	before := snapGame(e)
	b0 := e.Board()
	legal := b0.Position().LegalMoves(b0.Turn())
	verifReach("engine-move")
	err := e.Move(ctx, string(rs))
	// reference: the text is the coordinate form (either case) of a legal move
	var hit board.Move
	match := false
	for _, m := range legal {
		t := coordText(m)
		same := len(t) == n
		if same {
			for i := range t {
				same = verifAnd(same, lower(rs[i]) == t[i])
			}
		}
		if same {
			match = true
			hit = m
		}
	}
	verifAssert((err == nil) == match, "a move string is accepted exactly when it is the coordinate form of a legal move of the current position")
	if err == nil && match {
		verifReach("accepted")
		want := e.Board()
		_ = want
		ref := b0
		ok := ref.PushMove(hit)
		after := e.Board()
		lm, _ := after.LastMove()
		verifAssert(ok && after.Hash() == ref.Hash() && lm == hit && after.Ply() == ref.Ply(), "an accepted move string is played as the move it denotes")
	}
	if err != nil {
		verifAssert(snapGame(e) == before, "rejected input leaves the game state unchanged")
	}
}

func Harness_C19_EngineMove0() { harnessEngineMove(0) }
func Harness_C19_EngineMove1() { harnessEngineMove(1) }
func Harness_C19_EngineMove2() { harnessEngineMove(2) }
func Harness_C19_EngineMove3() { harnessEngineMove(3) }
