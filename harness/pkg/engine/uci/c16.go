package uci

import (
	"context"
	"strings"

	"github.com/herohde/morlock/pkg/engine"
	"github.com/herohde/morlock/pkg/search"
	"github.com/seekerror/stdlib/pkg/util/iox"
)

// C16: whatever arrives while a search is running, the driver neither crashes nor
// deadlocks, answers every isready, never answers a go with the move of a superseded
// search, and shuts down cleanly.

// a small position with a mate in one (so that even an unlimited search ends by itself
// at depth 2) keeps every search short; the two positions
// used by the superseded-search script have disjoint move sets
const c16Pos = "position fen 6k1/5ppp/8/8/8/8/8/R5K1 w - - 0 1"

type uciRun struct {
	e    *engine.Engine
	in   chan string
	out  chan string
	best []string
	ready int
}

func startDriver() *uciRun {
	r := &uciRun{e: newTestEngine(), in: make(chan string, 32), out: make(chan string, 1000)}
	d := &Driver{AsyncCloser: iox.NewAsyncCloser(), e: r.e, out: r.out, ponder: make(chan search.PV, 400)}
	go d.process(context.Background(), r.in)
	return r
}

// drain reads output until the channel is closed (clean shutdown); a driver that never
// closes its output leaves the harness blocked, which the executor reports as a deadlock.
func (r *uciRun) drain() {
	for l := range r.out {
		if strings.HasPrefix(l, "bestmove ") {
			r.best = append(r.best, strings.TrimPrefix(l, "bestmove "))
		}
		if l == "readyok" {
			r.ready++
		}
	}
}

func (r *uciRun) waitBest() string {
	for l := range r.out {
		if l == "readyok" {
			r.ready++
		}
		if strings.HasPrefix(l, "bestmove ") {
			b := strings.TrimPrefix(l, "bestmove ")
			r.best = append(r.best, b)
			return b
		}
	}
	return ""
}

// a new position and go arrive while the first search is still running
func Harness_C16_Superseded() {
	r := startDriver()
	r.in <- c16Pos
	r.in <- "go depth 2"
	r.in <- "isready"
	r.in <- c16Pos + " moves g1g2"
	r.in <- "go depth 1"
	verifReach("superseded")
	r.in <- "isready"
	// read until the second readyok: by then the driver has processed the second go and the
	// engine's position is the new one for good
	for r.ready < 2 {
		l, ok := <-r.out
		if !ok {
			break
		}
		if l == "readyok" {
			r.ready++
		}
		if strings.HasPrefix(l, "bestmove ") {
			r.best = append(r.best, strings.TrimPrefix(l, "bestmove "))
		}
	}
	// the answer to the last go is either the last bestmove received so far, or still to come
	answered := len(r.best) > 0 && legalText(r.e, r.best[len(r.best)-1])
	if !answered {
		b := r.waitBest() // blocks until it arrives (a swallowed answer shows as a deadlock)
		answered = b != "" && legalText(r.e, b)
	}
	r.in <- "quit"
	r.drain()
	verifAssert(answered, "the last go is answered with a move of the position it was asked for")
	verifAssert(r.ready == 2, "every isready is answered with readyok")
	n := 0
	for _, b := range r.best {
		if legalText(r.e, b) {
			n++
		}
	}
	verifAssert(n == 1, "the last go is answered exactly once")
	verifAssert(len(r.best) <= 2, "no bestmove beyond one per go")
	if len(r.best) == 2 {
		verifAssert(!legalText(r.e, r.best[0]), "a bestmove of the superseded search can only precede the answer to the new go")
	}
}

// ucinewgame, unknown words and isready during an infinite search, then quit
func Harness_C16_Noise() {
	r := startDriver()
	r.in <- c16Pos
	r.in <- "go infinite"
	r.in <- "isready"
	r.in <- "xyzzy 1 2 3"
	r.in <- "ucinewgame"
	r.in <- "isready"
	r.in <- "quit"
	verifReach("noise")
	r.drain()
	verifAssert(r.ready == 2, "every isready is answered with readyok")
	verifAssert(len(r.best) == 0, "a search abandoned by ucinewgame is not answered afterwards")
}

// end of input while a search is running
func Harness_C16_EOF() {
	r := startDriver()
	r.in <- c16Pos
	r.in <- "go depth 2"
	r.in <- "isready"
	close(r.in)
	verifReach("eof")
	r.drain()
	verifAssert(r.ready == 1, "isready is answered before the input ends")
	verifAssert(len(r.best) <= 1, "at most one answer")
}

// malformed go lines: the driver ends its session without crashing
func Harness_C16_Malformed() {
	r := startDriver()
	r.in <- c16Pos
	r.in <- "isready"
	which := verifSplit(uint64(nondetU8("which")), 0, 2)
	switch which {
	case 0:
		r.in <- "go depth"
	case 1:
		r.in <- "go depth x"
	default:
		r.in <- "go movetime -5 depth 1"
	}
	r.in <- "quit"
	verifReach("malformed")
	r.drain()
	verifAssert(r.ready == 1, "isready is answered")
}
