package uci

import (
	"context"
	"strings"

	"github.com/herohde/morlock/pkg/engine"
	"github.com/herohde/morlock/pkg/search"
	"github.com/seekerror/stdlib/pkg/util/iox"
)

// C16: whatever arrives while a search is running, the driver neither crashes nor
// deadlocks, answers every isready, never answers a go with the move of a superseded
// search, and shuts down cleanly.

type uciRun struct {
	e    *engine.Engine
	in   chan string
	out  chan string
	best []string
	ready int
}

func startDriver() *uciRun {
	r := &uciRun{e: newTestEngine(), in: make(chan string, 32), out: make(chan string, 1000)}
	d := &Driver{AsyncCloser: iox.NewAsyncCloser(), e: r.e, out: r.out, ponder: make(chan search.PV, 400)}
	go d.process(context.Background(), r.in)
	return r
}

// drain reads output until the channel is closed (clean shutdown); a driver that never
// closes its output leaves the harness blocked, which the executor reports as a deadlock.
func (r *uciRun) drain() {
	for l := range r.out {
		if strings.HasPrefix(l, "bestmove ") {
			r.best = append(r.best, strings.TrimPrefix(l, "bestmove "))
		}
		if l == "readyok" {
			r.ready++
		}
	}
}

func (r *uciRun) waitBest() string {
	for l := range r.out {
		if l == "readyok" {
			r.ready++
		}
		if strings.HasPrefix(l, "bestmove ") {
			b := strings.TrimPrefix(l, "bestmove ")
			r.best = append(r.best, b)
			return b
		}
	}
	return ""
}

// a new position and go arrive while the first search is still running
func Harness_C16_Superseded() {
	r := startDriver()
	r.in <- "position startpos"
	r.in <- "go depth 2"
	r.in <- "isready"
	r.in <- "position startpos moves e2e4"
	r.in <- "go depth 1"
	verifReach("superseded")
	// the answer to the last go: wait until a bestmove legal in the new position arrives,
	// then quit; any bestmove that is not legal there was computed for the superseded search
	r.in <- "isready"
	stale := 0
	last := ""
	for {
		b := r.waitBest()
		if b == "" {
			break
		}
		last = b
		if legalText(r.e, b) {
			break
		}
		stale++
	}
	r.in <- "quit"
	r.drain()
	verifAssert(last != "" && legalText(r.e, last), "the last go is answered with a move of the position it was asked for")
	verifAssert(r.ready == 2, "every isready is answered with readyok")
	// a move of the first search may be reported only before the new go is processed; it can
	// never be the only answer
	verifAssert(stale <= 1, "at most the superseded search's own answer precedes the answer to the new go")
	verifAssert(len(r.best) <= 2, "no bestmove beyond one per go")
}

// ucinewgame, unknown words and isready during an infinite search, then quit
func Harness_C16_Noise() {
	r := startDriver()
	r.in <- "position startpos"
	r.in <- "go infinite"
	r.in <- "isready"
	r.in <- "xyzzy 1 2 3"
	r.in <- "ucinewgame"
	r.in <- "isready"
	r.in <- "quit"
	verifReach("noise")
	r.drain()
	verifAssert(r.ready == 2, "every isready is answered with readyok")
	verifAssert(len(r.best) == 0, "a search abandoned by ucinewgame is not answered afterwards")
}

// end of input while a search is running
func Harness_C16_EOF() {
	r := startDriver()
	r.in <- "position startpos"
	r.in <- "go depth 2"
	r.in <- "isready"
	close(r.in)
	verifReach("eof")
	r.drain()
	verifAssert(r.ready == 1, "isready is answered before the input ends")
	verifAssert(len(r.best) <= 1, "at most one answer")
}

// malformed go lines: the driver ends its session without crashing
func Harness_C16_Malformed() {
	r := startDriver()
	r.in <- "position startpos"
	r.in <- "isready"
	which := verifSplit(uint64(nondetU8("which")), 0, 2)
	switch which {
	case 0:
		r.in <- "go depth"
	case 1:
		r.in <- "go depth x"
	default:
		r.in <- "go movetime -5 depth 1"
	}
	r.in <- "quit"
	verifReach("malformed")
	r.drain()
	verifAssert(r.ready == 1, "isready is answered")
}
