package uci

import (
	"context"

	"github.com/herohde/morlock/pkg/board"
	"github.com/herohde/morlock/pkg/engine"
	"github.com/herohde/morlock/pkg/eval"
	"github.com/herohde/morlock/pkg/search"
	"github.com/seekerror/stdlib/pkg/util/iox"
)

// C10: the driver's command loop is run as a function on a pre-loaded input channel. The
// script shape (which base position, how many moves each position command sets up, where
// ucinewgame is sent) is the case-split part; the oracle is a fresh engine set up from scratch.

var c10Line = [6]string{"g1f3", "g8f6", "f3g1", "f6g8", "e2e4", "e7e5"}

const c10Fen1 = "r3k2r/pppq1ppp/2n2n2/3pp3/3PP3/2N2N2/PPPQ1PPP/R3K2R w KQkq - 4 8"
const c10Fen2 = "4k3/8/8/8/8/8/4P3/4K2R b K - 37 52"

var c10Line1 = [6]string{"e1g1", "e8c8", "d4e5", "c6e5", "f3e5", "d7e6"}
var c10Line2 = [6]string{"e8d7", "e1g1", "d7e6", "e2e4", "e6e5", "f1f4"}

func newTestEngine() *engine.Engine {
	return engine.New(context.Background(), "test", "nobody", search.AlphaBeta{Eval: search.Leaf{Eval: eval.Material{}}})
}

func positionCmd(base int, n int) (string, string, []string) {
	head, fenStr := "position startpos", "rnbqkbnr/pppppppp/8/8/8/8/PPPPPPPP/RNBQKBNR w KQkq - 0 1"
	line := c10Line
	switch base {
	case 1:
		head, fenStr, line = "position fen "+c10Fen1, c10Fen1, c10Line1
	case 2:
		head, fenStr, line = "position fen "+c10Fen2, c10Fen2, c10Line2
	}
	cmd := head
	var moves []string
	if n > 0 {
		cmd += " moves"
		for i := 0; i < n; i++ {
			cmd += " " + line[i]
			moves = append(moves, line[i])
		}
	}
	return cmd, fenStr, moves
}

type engineSnap struct {
	fen    string
	hash   board.ZobristHash
	ply    int
	np     int
	fm     int
	turn   board.Color
	last   board.Move
	has    bool
	second board.Move
	has2   bool
	drawn  bool
}

func snapEngine(e *engine.Engine) engineSnap {
	b := e.Board()
	l, h := b.LastMove()
	s2, h2 := b.SecondToLastMove()
	return engineSnap{fen: e.Position(), hash: b.Hash(), ply: b.Ply(), np: b.NoProgress(), fm: b.FullMoves(), turn: b.Turn(), last: l, has: h, second: s2, has2: h2, drawn: b.Result().Outcome == board.Draw}
}

func harnessPositions(ncmds int) {
	ctx := context.Background()
	var script []string
	var wantFen string
	var wantMoves []string
	base := int(verifSplit(uint64(nondetU8("base")), 0, 2))
	for i := 0; i < ncmds; i++ {
		n := int(verifSplit(uint64(nondetU8("moves")), 0, 6))
		b := base
		if i > 0 && nondetBool("other-game") {
			b = (base + 1) % 3
		}
		if i > 0 && nondetBool("ucinewgame") {
			script = append(script, "ucinewgame")
		}
		cmd, f, mv := positionCmd(b, n)
		script = append(script, cmd)
		wantFen, wantMoves = f, mv
	}
	script = append(script, "isready")

	e := newTestEngine()
	in := make(chan string, len(script))
	for _, l := range script {
		in <- l
	}
	close(in)
	out := make(chan string, 1000)
	d := &Driver{AsyncCloser: iox.NewAsyncCloser(), e: e, out: out, ponder: make(chan search.PV, 400)}
	verifReach("script")
	d.process(ctx, in)

	verifAssert(len(in) == 0, "the driver reads every command (it does not shut down on a position command)")
	ready := 0
	for l := range out {
		if l == "readyok" {
			ready++
		}
	}
	verifAssert(ready == 1, "the trailing isready is answered (the driver is still alive)")

	// oracle: the whole line set up from scratch on a fresh engine
	o := newTestEngine()
	err := o.Reset(ctx, wantFen)
	verifAssert(err == nil, "oracle reset")
	for _, m := range wantMoves {
		verifAssert(o.Move(ctx, m) == nil, "oracle move")
	}
	verifAssert(snapEngine(e) == snapEngine(o), "after the command sequence the engine's game (FEN, side, clocks, hash, ply, last moves, drawn flag) is the one the most recent position command describes")
}

func Harness_C10_Two()   { harnessPositions(2) }
func Harness_C10_Three() { harnessPositions(3) }
