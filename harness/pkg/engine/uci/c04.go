package uci

import (
	"context"
	"strings"

	"github.com/herohde/morlock/pkg/board"
	"github.com/herohde/morlock/pkg/engine"
	"github.com/herohde/morlock/pkg/search"
	"github.com/seekerror/stdlib/pkg/util/iox"
)

// C04: every go is answered by exactly one legal bestmove. The real driver, engine,
// iterative-deepening launcher and alpha-beta search run as goroutines of the executor.

var c04Positions = []string{
	"position startpos",
	"position fen 7k/5Q2/6K1/8/8/8/8/8 b - - 0 1",                       // stalemate: no legal move
	"position fen 6k1/5ppp/8/8/8/8/8/R5K1 w - - 0 1",                    // mate in one available
	"position fen 7k/8/8/8/8/8/8/K6R w - - 99 80",                       // fifty-move draw claimable after any quiet move
	"position startpos moves g1f3 g8f6 f3g1 f6g8 g1f3 g8f6 f3g1 f6g8", // position has occurred three times: a draw could be claimed
}

func legalText(e *engine.Engine, mv string) bool {
	b := e.Board()
	for _, m := range b.Position().LegalMoves(b.Turn()) {
		if printMove(m) == mv {
			return true
		}
	}
	return false
}

func harnessGo(pos int, goCmd string, stop bool) {
	ctx := context.Background()
	e := newTestEngine()
	in := make(chan string, 16)
	out := make(chan string, 1000)
	d := &Driver{AsyncCloser: iox.NewAsyncCloser(), e: e, out: out, ponder: make(chan search.PV, 400)}
	go d.process(ctx, in)
	in <- c04Positions[pos]
	in <- goCmd
	if stop {
		in <- "stop"
	}
	verifReach("go")
	// wait for the answer
	best := ""
	for l := range out {
		if strings.HasPrefix(l, "bestmove ") {
			best = strings.TrimPrefix(l, "bestmove ")
			break
		}
	}
	in <- "quit"
	extra := 0
	for l := range out {
		if strings.HasPrefix(l, "bestmove ") {
			extra++
		}
	}
	verifReach("answered")
	verifAssert(best != "", "the go command is answered by a bestmove")
	verifAssert(extra == 0, "the go command is answered exactly once")
	b := e.Board()
	hasMove := len(b.Position().LegalMoves(b.Turn())) > 0
	if hasMove {
		verifAssert(best != "0000", "the null move is answered only when the position has no legal move")
		verifAssert(legalText(e, best), "the answered move is legal in the position last set up")
	} else {
		verifAssert(best == "0000", "without a legal move the null move is answered")
	}
}

func Harness_C04_Depth_P0() { harnessGo(0, "go depth 1", false) }
func Harness_C04_Depth_P1() { harnessGo(1, "go depth 2", false) }
func Harness_C04_Depth_P2() { harnessGo(2, "go depth 2", false) }
func Harness_C04_Depth_P3() { harnessGo(3, "go depth 1", false) }
func Harness_C04_Depth_P4() { harnessGo(4, "go depth 1", false) }
func Harness_C04_Infinite_Stop() { harnessGo(2, "go infinite", true) }
func Harness_C04_Movetime() { harnessGo(2, "go movetime 100", false) }

var _ = board.White

// two go commands in a row, the second sent after the first search has ended by itself and
// been answered (no position or stop in between): each is answered exactly once
func harnessGoTwice(pos int, goCmd string) {
	ctx := context.Background()
	e := newTestEngine()
	in := make(chan string, 16)
	out := make(chan string, 1000)
	d := &Driver{AsyncCloser: iox.NewAsyncCloser(), e: e, out: out, ponder: make(chan search.PV, 400)}
	go d.process(ctx, in)
	in <- c04Positions[pos]
	verifReach("go-twice")
	var best [2]string
	for k := 0; k < 2; k++ {
		in <- goCmd
		for l := range out {
			if strings.HasPrefix(l, "bestmove ") {
				best[k] = strings.TrimPrefix(l, "bestmove ")
				break
			}
		}
	}
	in <- "quit"
	extra := 0
	for l := range out {
		if strings.HasPrefix(l, "bestmove ") {
			extra++
		}
	}
	verifReach("answered-twice")
	verifAssert(best[0] != "" && best[1] != "", "every go command is answered by a bestmove, also one that follows a search that ended by itself")
	verifAssert(extra == 0, "each go command is answered exactly once")
	verifAssert(legalText(e, best[0]) && legalText(e, best[1]), "the answered moves are legal in the position last set up")
}

func Harness_C04_GoTwice() { harnessGoTwice(2, "go depth 1") }
