package eval

// C09: scores form a total order that negation reverses.

func symScore(n string) Score {
	return Score{Type: ScoreType(nondetI8(n + ".type")), Mate: nondetI8(n + ".mate"), Pawns: Pawns(nondetF32(n + ".pawns"))}
}

// validScore: exactly the scores the constructors, Negate and IncrementMateDistance produce.
func validScore(s Score) bool {
	switch s.Type {
	case Heuristic:
		return s.Mate == 0 && s.Pawns == s.Pawns // not NaN; +-Inf allowed
	case MateInX:
		return s.Mate != 0 && s.Mate != -128 && s.Pawns == 0
	case Inf, NegInf:
		return s.Mate == 0 && s.Pawns == 0
	}
	return false
}

// refClass: lost(0) < being mated(1) < heuristic(2) < mating(3) < won(4)
func refClass(s Score) int {
	switch s.Type {
	case NegInf:
		return 0
	case MateInX:
		if s.Mate < 0 {
			return 1
		}
		return 3
	case Heuristic:
		return 2
	default:
		return 4
	}
}

// refLess is the order of the property statement, written from its text:
// lost < mated sooner < mated later < heuristic (numeric) < mating later < mating sooner < won.
func refLess(a, b Score) bool {
	ca, cb := refClass(a), refClass(b)
	if ca != cb {
		return ca < cb
	}
	switch ca {
	case 1:
		// being mated in |Mate| plies: sooner (smaller distance) is worse
		return -int(a.Mate) < -int(b.Mate)
	case 3:
		// mating in Mate plies: later (larger distance) is worse
		return int(a.Mate) > int(b.Mate)
	case 2:
		return a.Pawns < b.Pawns
	}
	return false
}

func refEquiv(a, b Score) bool {
	ca, cb := refClass(a), refClass(b)
	if ca != cb {
		return false
	}
	switch ca {
	case 1, 3:
		return a.Mate == b.Mate
	case 2:
		return a.Pawns == b.Pawns
	}
	return true
}

func Harness_C09_LessMatchesOrder() {
	a, b := symScore("a"), symScore("b")
	verifAssume(validScore(a))
	verifAssume(validScore(b))
	verifReach("less")
	verifAssert(a.Less(b) == refLess(a, b), "Less(a,b) equals the order of the property statement")
}

func Harness_C09_StrictTotalOrder() {
	a, b, c := symScore("a"), symScore("b"), symScore("c")
	verifAssume(validScore(a))
	verifAssume(validScore(b))
	verifAssume(validScore(c))
	verifReach("order")
	verifAssert(!a.Less(a), "Less is irreflexive")
	ab, bc, ac, ba := a.Less(b), b.Less(c), a.Less(c), b.Less(a)
	verifAssert(!(ab && bc) || ac, "Less is transitive")
	verifAssert(!(ab && ba), "Less is asymmetric")
	verifAssert(ab || ba || refEquiv(a, b), "Less is total: incomparable scores are the same score")
}

func Harness_C09_NegateInvolution() {
	a := symScore("a")
	verifAssume(validScore(a))
	verifReach("negate")
	n := a.Negate()
	verifAssert(validScore(n), "Negate yields a valid score")
	verifAssert(n.Negate() == a, "Negate(Negate(a)) == a")
}

func Harness_C09_NegateReverses() {
	a, b := symScore("a"), symScore("b")
	verifAssume(validScore(a))
	verifAssume(validScore(b))
	verifReach("reverse")
	verifAssert(a.Less(b) == b.Negate().Less(a.Negate()), "a<b exactly when -b < -a")
}

func absMate(s Score) int {
	if s.Mate < 0 {
		return -int(s.Mate)
	}
	return int(s.Mate)
}

func Harness_C09_IncrementKeepsOrder() {
	a, b := symScore("a"), symScore("b")
	verifAssume(validScore(a))
	verifAssume(validScore(b))
	// stated bound: |Mate| <= 126 (127+1 overflows int8; recorded separately)
	verifAssume(absMate(a) <= 126)
	verifAssume(absMate(b) <= 126)
	verifReach("increment")
	ia, ib := IncrementMateDistance(a), IncrementMateDistance(b)
	verifAssert(validScore(ia), "IncrementMateDistance yields a valid score")
	verifAssert(a.Less(b) == ia.Less(ib), "adding a ply of mate distance keeps the relative order")
	verifAssert(refClass(ia) == refClass(a) || (a.Type == Inf && refClass(ia) == 3) || (a.Type == NegInf && refClass(ia) == 1), "increment keeps the score on its side")
}

func Harness_C09_MaxMin() {
	a, b := symScore("a"), symScore("b")
	verifAssume(validScore(a))
	verifAssume(validScore(b))
	verifReach("maxmin")
	mx, mn := Max(a, b), Min(a, b)
	verifAssert(mx == a || mx == b, "Max returns one of its arguments")
	verifAssert(mn == a || mn == b, "Min returns one of its arguments")
	verifAssert(!refLess(mx, a) && !refLess(mx, b), "Max is not below either argument")
	verifAssert(!refLess(a, mn) && !refLess(b, mn), "Min is not above either argument")
}

// vacuity twin: must be reported violated
func Harness_C09_Twin() {
	a, b := symScore("a"), symScore("b")
	verifAssume(validScore(a))
	verifAssume(validScore(b))
	verifReach("twin")
	verifAssert(a.Less(b) != refLess(a, b), "twin: negated property (must fail)")
}
