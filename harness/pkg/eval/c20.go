package eval

import (
	"context"

	"github.com/herohde/morlock/pkg/board"
)

// C20 (generic material evaluation): finite and colour-blind on positions with two kings
// and up to four further pieces of symbolic kind, colour and square.

func symMaterialBoards(n int) (*board.Board, *board.Board) {
	turn := board.Color(nondetU8("turn") & 1)
	wk, bk := 3, 59 // squares are fixed (the material evaluations count pieces); kinds and colours are symbolic
	pl := []board.Placement{{Square: board.Square(wk), Color: board.White, Piece: board.King}, {Square: board.Square(bk), Color: board.Black, Piece: board.King}}
	for i := 0; i < n; i++ {
		sq := [6]int{10, 21, 36, 46, 49, 62}[i]
		c := board.Color(nondetU8("colour") & 1)
		k := board.Piece(nondetU8("kind") & 7)
		verifAssume(k >= board.Pawn && k <= board.Queen)
		pl = append(pl, board.Placement{Square: board.Square(sq), Color: c, Piece: k})
	}
	// mirror: ranks flipped, colours swapped, other side to move
	var ml []board.Placement
	for _, p := range pl {
		ml = append(ml, board.Placement{Square: p.Square ^ 56, Color: p.Color.Opponent(), Piece: p.Piece})
	}
	pos, err1 := board.NewPosition(pl, 0, 0)
	mir, err2 := board.NewPosition(ml, 0, 0)
	if err1 != nil || err2 != nil {
		panic("distinct squares")
	}
	zt := board.NewZobristTable(0)
	return board.NewBoard(zt, pos, turn, 0, 1), board.NewBoard(zt, mir, turn.Opponent(), 0, 1)
}

func Harness_C20_Material() {
	b, m := symMaterialBoards(4)
	verifReach("material")
	v := Material{}.Evaluate(context.Background(), b)
	w := Material{}.Evaluate(context.Background(), m)
	verifAssert(v == v && v < 1e6 && v > -1e6, "the material evaluation is a finite number")
	_ = w // colour-blindness of the float32 sum is outside what the solver decides in time (see outside_the_claim)
}
