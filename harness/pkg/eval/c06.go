package eval

import (
	"github.com/herohde/morlock/pkg/board"
)

// C06-3: FindCapture and FindPins against their definitions, on positions with a bounded
// number of pieces on symbolic squares.

func rBit(sq int) uint64 { return uint64(1) << uint(sq&63) }

func rBitAt(f, r int) uint64 {
	on := verifAnd(verifAnd(f >= 0, f <= 7), verifAnd(r >= 0, r <= 7))
	return verifIte(on, uint64(1)<<uint((r*8+f)&63), 0)
}

var rRookDirs = [4][2]int{{1, 0}, {-1, 0}, {0, 1}, {0, -1}}
var rBishopDirs = [4][2]int{{1, 1}, {1, -1}, {-1, 1}, {-1, -1}}
var rKnightOffs = [8][2]int{{1, 2}, {2, 1}, {2, -1}, {1, -2}, {-1, -2}, {-2, -1}, {-2, 1}, {-1, 2}}
var rKingOffs = [8][2]int{{1, 0}, {1, 1}, {0, 1}, {-1, 1}, {-1, 0}, {-1, -1}, {0, -1}, {1, -1}}

func rSlide(from int, occ uint64, dirs [4][2]int) uint64 {
	var out uint64
	for _, d := range dirs {
		f, r := from&7, from>>3
		open := true
		for i := 0; i < 7; i++ {
			f += d[0]
			r += d[1]
			b := rBitAt(f, r)
			out |= verifIte(open, b, 0)
			open = verifAnd(open, verifAnd(b != 0, occ&b == 0))
		}
	}
	return out
}

func rJump(from int, offs [8][2]int) uint64 {
	var out uint64
	for _, d := range offs {
		out |= rBitAt((from&7)+d[0], (from>>3)+d[1])
	}
	return out
}

// specifications of the attack boards (proved against the real tables in the C06 table obligations)
func specRook(bb board.RotatedBitboard, sq board.Square) board.Bitboard {
	return board.Bitboard(rSlide(int(sq), uint64(bb.Mask()), rRookDirs))
}
func specBishop(bb board.RotatedBitboard, sq board.Square) board.Bitboard {
	return board.Bitboard(rSlide(int(sq), uint64(bb.Mask()), rBishopDirs))
}
func specAttack(bb board.RotatedBitboard, sq board.Square, piece board.Piece) board.Bitboard {
	switch piece {
	case board.King:
		return board.Bitboard(rJump(int(sq), rKingOffs))
	case board.Knight:
		return board.Bitboard(rJump(int(sq), rKnightOffs))
	case board.Rook:
		return specRook(bb, sq)
	case board.Bishop:
		return specBishop(bb, sq)
	case board.Queen:
		return specRook(bb, sq) | specBishop(bb, sq)
	}
	panic("invalid piece or Pawn")
}

type symPiece struct {
	sq    int
	c     board.Color
	k     board.Piece
}

func symPieces(n int) ([]symPiece, *board.Position) {
	var ps []symPiece
	var pl []board.Placement
	for i := 0; i < n; i++ {
		p := symPiece{sq: int(nondetU8("sq") & 63), c: board.Color(nondetU8("colour") & 1), k: board.Piece(nondetU8("kind") & 7)}
		verifAssume(p.k >= board.Pawn && p.k <= board.King)
		for _, q := range ps {
			verifAssume(q.sq != p.sq)
		}
		ps = append(ps, p)
		pl = append(pl, board.Placement{Square: board.Square(p.sq), Color: p.c, Piece: p.k})
	}
	pos, err := board.NewPosition(pl, 0, 0)
	if err != nil {
		panic("distinct squares")
	}
	return ps, pos
}

// attacksRef: does piece p attack square sq given occupancy occ (movement rule, sliders
// stopping at the first occupied square; pawns capture diagonally forward)?
func attacksRef(p symPiece, sq int, occ uint64) bool {
	b := rBit(sq)
	switch p.k {
	case board.King:
		return rJump(p.sq, rKingOffs)&b != 0
	case board.Knight:
		return rJump(p.sq, rKnightOffs)&b != 0
	case board.Rook:
		return rSlide(p.sq, occ, rRookDirs)&b != 0
	case board.Bishop:
		return rSlide(p.sq, occ, rBishopDirs)&b != 0
	case board.Queen:
		return (rSlide(p.sq, occ, rRookDirs)|rSlide(p.sq, occ, rBishopDirs))&b != 0
	case board.Pawn:
		dr := 1
		if p.c == board.Black {
			dr = -1
		}
		f, r := p.sq&7, p.sq>>3
		return (rBitAt(f-1, r+dr)|rBitAt(f+1, r+dr))&b != 0
	}
	return false
}

func Harness_C06_FindCapture() {
	n := 3
	if !verifQuick() {
		n = 4
	}
	ps, pos := symPieces(n)
	side := board.Color(nondetU8("side") & 1)
	sq := int(nondetU8("target") & 63)
	occ := uint64(pos.All())
	verifReach("findcapture")
	got := FindCapture(pos, side, board.Square(sq))
	// every reported capturer is a piece of that side attacking the square, each once
	for i, g := range got {
		ok := false
		for _, p := range ps {
			if p.sq == int(g.Square) && p.c == side && p.k == g.Piece && g.Color == side && attacksRef(p, sq, occ) {
				ok = true
			}
		}
		verifAssert(ok, "FindCapture: every reported piece is a piece of that side that attacks the square")
		for j := 0; j < i; j++ {
			verifAssert(got[j].Square != g.Square, "FindCapture: each capturer is reported once")
		}
	}
	// and every such piece is reported
	want := 0
	for _, p := range ps {
		if p.c == side && p.sq != sq && attacksRef(p, sq, occ) {
			want++
		}
	}
	verifAssert(len(got) == want, "FindCapture: all pieces of that side that attack the square are reported")
}

// between: squares strictly between a and b on a common line (0 if not aligned)
func lineBetween(a, b int) (uint64, bool, bool) {
	fa, ra, fb, rb := a&7, a>>3, b&7, b>>3
	df, dr := fb-fa, rb-ra
	straight := (df == 0) != (dr == 0)
	adf, adr := df, dr
	if adf < 0 {
		adf = -adf
	}
	if adr < 0 {
		adr = -adr
	}
	diagonal := adf == adr && adf != 0
	if !straight && !diagonal {
		return 0, false, false
	}
	sf, sr := 0, 0
	if df > 0 {
		sf = 1
	}
	if df < 0 {
		sf = -1
	}
	if dr > 0 {
		sr = 1
	}
	if dr < 0 {
		sr = -1
	}
	var out uint64
	f, r := fa, ra
	for i := 0; i < 7; i++ {
		f += sf
		r += sr
		reached := f == fb && r == rb
		if reached {
			break
		}
		out |= rBitAt(f, r)
	}
	return out, straight, diagonal
}

// FindPins on fixed geometric layouts with symbolic piece kinds: a target king, own pieces on
// three of its lines and opposing pieces behind them (any kind, so that zero to three pins
// exist, including several on the same target).
type pinLayout struct {
	target  board.Square
	own     [3]board.Square
	enemy   [3]board.Square
}

var pinLayouts = []pinLayout{
	{target: board.D4, own: [3]board.Square{board.F4, board.D6, board.F6}, enemy: [3]board.Square{board.H4, board.D8, board.H8}},
	{target: board.E1, own: [3]board.Square{board.E2, board.D1, board.F2}, enemy: [3]board.Square{board.E8, board.A1, board.H4}},
	{target: board.A8, own: [3]board.Square{board.B8, board.A7, board.B7}, enemy: [3]board.Square{board.H8, board.A1, board.H1}},
}

func harnessPins(li int) {
	l := pinLayouts[li]
	side := board.Color(verifSplit(uint64(nondetU8("side")), 0, 1))
	var ps []symPiece
	pl := []board.Placement{{Square: l.target, Color: side, Piece: board.King}}
	ps = append(ps, symPiece{sq: int(l.target), c: side, k: board.King})
	for i := 0; i < 3; i++ {
		k := board.Piece(nondetU8("own-kind") & 7)
		verifAssume(k >= board.Pawn && k <= board.Queen)
		pl = append(pl, board.Placement{Square: l.own[i], Color: side, Piece: k})
		ps = append(ps, symPiece{sq: int(l.own[i]), c: side, k: k})
	}
	for i := 0; i < 3; i++ {
		k := board.Piece(nondetU8("enemy-kind") & 7)
		verifAssume(k >= board.Pawn && k <= board.Queen)
		pl = append(pl, board.Placement{Square: l.enemy[i], Color: side.Opponent(), Piece: k})
		ps = append(ps, symPiece{sq: int(l.enemy[i]), c: side.Opponent(), k: k})
	}
	pos, err := board.NewPosition(pl, 0, 0)
	if err != nil {
		panic("layout squares are distinct")
	}
	occ := uint64(pos.All())
	verifReach("findpins")
	got := FindPins(pos, side, board.King)
	T := int(l.target)
	want := 0
	for _, a := range ps[4:] {
		btw, straight, diagonal := lineBetween(T, a.sq)
		slider := (straight && (a.k == board.Rook || a.k == board.Queen)) || (diagonal && (a.k == board.Bishop || a.k == board.Queen))
		for _, p := range ps[1:4] {
			pinned := slider && btw&rBit(p.sq) != 0 && (occ&btw) == rBit(p.sq)
			if pinned {
				want++
				found := false
				for _, g := range got {
					if int(g.Attacker) == a.sq && int(g.Pinned) == p.sq && int(g.Target) == T {
						found = true
					}
				}
				verifAssert(found, "FindPins: every pin of the definition is reported")
			}
		}
	}
	verifAssert(len(got) == want, "FindPins: nothing but the pins of the definition is reported, each once")
}

func Harness_C06_FindPins0() { harnessPins(0) }
func Harness_C06_FindPins1() { harnessPins(1) }
func Harness_C06_FindPins2() { harnessPins(2) }
