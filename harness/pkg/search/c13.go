package search

import (
	"context"

	"github.com/herohde/morlock/pkg/board"
	"github.com/herohde/morlock/pkg/eval"
)

// C13: a narrowed window only clips the true value.

func toRef(s eval.Score) refVal {
	switch s.Type {
	case eval.Heuristic:
		return refVal{kind: 0, p: s.Pawns}
	case eval.MateInX:
		if s.Mate > 0 {
			return refVal{kind: 1, n: int(s.Mate)}
		}
		return refVal{kind: 2, n: -int(s.Mate)}
	case eval.Inf:
		return refVal{kind: 1, n: 0}
	default:
		return refVal{kind: 2, n: 0}
	}
}

func refLE(a, b refVal) bool { return !refBetter(a, b) }

// symBound: a window bound: won/lost, a heuristic value, or (withMates) a mate score.
func symBound(n string, withMates bool) eval.Score {
	t := nondetU8(n+".kind") & 3
	p := eval.Pawns(nondetF32(n + ".pawns"))
	verifAssume(p > -2000 && p < 2000)
	m := nondetI8(n + ".mate")
	verifAssume(m != 0 && m != -128)
	switch t {
	case 0:
		return eval.NegInfScore
	case 1:
		return eval.InfScore
	case 2:
		return eval.HeuristicScore(p)
	}
	verifAssume(withMates)
	return eval.MateInXScore(m)
}

func clipContract(r, v, a, b refVal, what string) {
	inside := refBetter(v, a) && refBetter(b, v)
	if inside {
		verifAssert(!refBetter(r, v) && !refBetter(v, r), what+": the true value inside the window is returned exactly")
	}
	if refLE(v, a) {
		verifAssert(refLE(v, r) && refLE(r, a), what+": a value at or below alpha gives v <= r <= alpha")
	}
	if refLE(b, v) {
		verifAssert(refLE(b, r) && refLE(r, v), what+": a value at or above beta gives beta <= r <= v")
	}
}

func harnessWindow(tree, depth, k int, withMates bool) {
	b := mkBoard(tree)
	initLeaves(k)
	ev := symEval{}
	alpha, beta := symBound("alpha", withMates), symBound("beta", withMates)
	ra, rb := toRef(alpha), toRef(beta)
	verifAssume(refBetter(rb, ra))
	verifReach("window")
	ab := AlphaBeta{Eval: Leaf{Eval: ev}}
	_, score, _, err := ab.Search(context.Background(), &Context{Alpha: alpha, Beta: beta, TT: NoTranspositionTable{}}, b, depth)
	verifAssert(err == nil && !score.IsInvalid(), "a windowed search returns a score")
	v := refNegamax(b, depth, ev, nil)
	clipContract(toRef(score), v, ra, rb, "search")
}

func Harness_C13_T0_D2()      { harnessWindow(0, 2, 2, false) }
func Harness_C13_T0_D3()      { harnessWindow(0, 3, 2, false) }
func Harness_C13_T3_D2()      { harnessWindow(3, 2, 2, false) }
func Harness_C13_T4_D2()      { harnessWindow(4, 2, 2, false) }
func Harness_C13_T4_D3()      { harnessWindow(4, 3, 2, false) }
func Harness_C13_T5_D2()      { harnessWindow(5, 2, 2, false) }
func Harness_C13_T5_D3()      { harnessWindow(5, 3, 2, false) }
func Harness_C13_T7_D2()      { harnessWindow(7, 2, 2, false) }
func Harness_C13_Mate_T4_D2() { harnessWindow(4, 2, 2, true) }
func Harness_C13_Mate_T4_D3() { harnessWindow(4, 3, 2, true) }
func Harness_C13_Mate_T5_D2() { harnessWindow(5, 2, 2, true) }

// ---- quiescence ----

type symSearchEval struct{}

func (symSearchEval) Evaluate(ctx context.Context, sctx *Context, b *board.Board) eval.Pawns {
	return symEval{}.Evaluate(ctx, b)
}

func capturesOnly(ctx context.Context, b *board.Board) (board.MovePriorityFn, board.MovePredicateFn) {
	return MVVLVA, func(m board.Move) bool { return m.IsCaptureOrEnPassant() || m.IsPromotion() }
}

// refQuiesce: stand pat or the best explored capture line, exhaustively.
func refQuiesce(b *board.Board) refVal {
	if b.Result().Outcome == board.Draw {
		return refVal{}
	}
	moves := b.Position().LegalMoves(b.Turn())
	if len(moves) == 0 {
		if b.Position().IsChecked(b.Turn()) {
			return refVal{kind: 2, n: 0}
		}
		return refVal{}
	}
	best := refVal{kind: 0, p: symEval{}.Evaluate(context.Background(), b)}
	_, pick := capturesOnly(context.Background(), b)
	for _, m := range moves {
		if !pick(m) {
			continue
		}
		b.PushMove(m)
		v := refNeg(refQuiesce(b))
		b.PopMove()
		if refBetter(v, best) {
			best = v
		}
	}
	return best
}

var quietMenu = []menuPos{
	// 0: a pawn can take a pawn which can be retaken
	{name: "exchange", turn: board.White, pieces: []board.Placement{pl(board.H1, board.White, board.King), pl(board.D4, board.White, board.Pawn), pl(board.H8, board.Black, board.King), pl(board.E5, board.Black, board.Pawn), pl(board.F6, board.Black, board.Pawn)}},
	// 1: promotion or capture-promotion available
	{name: "promotion", turn: board.White, pieces: []board.Placement{pl(board.A1, board.White, board.King), pl(board.B7, board.White, board.Pawn), pl(board.H8, board.Black, board.King), pl(board.A8, board.Black, board.Rook)}},
	// 2: side to move is checkmated
	{name: "mated", turn: board.Black, pieces: []board.Placement{pl(board.H8, board.Black, board.King), pl(board.G6, board.White, board.King), pl(board.A8, board.White, board.Rook)}},
	// 3: side to move is stalemated
	{name: "stalemated", turn: board.Black, pieces: []board.Placement{pl(board.H8, board.Black, board.King), pl(board.G6, board.White, board.King), pl(board.F7, board.White, board.Queen)}},
	// 4: quiet position: only stand pat
	{name: "quiet", turn: board.White, pieces: []board.Placement{pl(board.H1, board.White, board.King), pl(board.H4, board.White, board.Pawn), pl(board.H8, board.Black, board.King), pl(board.H5, board.Black, board.Pawn)}},
}

func harnessQuiet(i int, withMates bool) {
	m := quietMenu[i]
	pos, err := board.NewPosition(m.pieces, 0, 0)
	if err != nil {
		panic("bad quiet menu")
	}
	b := board.NewBoard(harnessZobrist(), pos, m.turn, m.np, 1)
	initLeaves(2)
	alpha, beta := symBound("alpha", withMates), symBound("beta", withMates)
	ra, rb := toRef(alpha), toRef(beta)
	verifAssume(refBetter(rb, ra))
	before := snapGame(b)
	verifReach("quiet")
	q := Quiescence{Explore: capturesOnly, Eval: symSearchEval{}}
	_, score := q.QuietSearch(context.Background(), &Context{Alpha: alpha, Beta: beta, TT: NoTranspositionTable{}}, b)
	after := snapGame(b)
	// a position without legal moves is adjudicated (mate/stalemate) by the search: a true
	// statement about the unchanged game state, accepted
	if len(b.Position().LegalMoves(b.Turn())) == 0 {
		after.term = before.term
	}
	verifAssert(after == before, "quiescence hands the board back unchanged")
	v := refQuiesce(b)
	r := toRef(score)
	clipContract(r, v, ra, rb, "quiescence")
	legal := len(b.Position().LegalMoves(b.Turn())) > 0
	if legal {
		stand := refVal{kind: 0, p: symEval{}.Evaluate(context.Background(), b)}
		if refBetter(stand, ra) && refBetter(rb, stand) {
			verifAssert(refLE(stand, r), "with a legal move available quiescence never rates the position below its static evaluation")
		}
	} else if b.Position().IsChecked(b.Turn()) {
		verifAssert(score.Type == eval.NegInf, "checkmate is rated exactly")
	} else {
		verifAssert(score == eval.ZeroScore, "stalemate is rated exactly")
	}
}

func Harness_C13_Quiet0() { harnessQuiet(0, false) }
func Harness_C13_Quiet1() { harnessQuiet(1, false) }
func Harness_C13_Quiet2() { harnessQuiet(2, false) }
func Harness_C13_Quiet3() { harnessQuiet(3, false) }
func Harness_C13_Quiet4() { harnessQuiet(4, false) }
func Harness_C13_QuietMate0() { harnessQuiet(0, true) }
