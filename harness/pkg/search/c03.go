package search

import (
	"context"

	"github.com/herohde/morlock/pkg/board"
	"github.com/herohde/morlock/pkg/eval"
)

// ---------------------------------------------------------------------------
// Tree menu: small concrete positions. The board is concrete; what the search
// branches on (leaf values, window, cancellation instant) is symbolic.

type menuPos struct {
	name     string
	pieces   []board.Placement
	turn     board.Color
	np       int
	history  []board.Move // played on the board after set-up (for repetition trees)
}

func pl(sq board.Square, c board.Color, p board.Piece) board.Placement {
	return board.Placement{Square: sq, Color: c, Piece: p}
}

var menu = []menuPos{
	// 0: blocked pawns, kings only mobile (3x3 tree)
	{name: "blocked-pawns", turn: board.White, pieces: []board.Placement{pl(board.H1, board.White, board.King), pl(board.H4, board.White, board.Pawn), pl(board.H8, board.Black, board.King), pl(board.H5, board.Black, board.Pawn)}},
	// 1: back-rank mate in one available (Ra8#)
	{name: "mate-in-1", turn: board.White, pieces: []board.Placement{pl(board.G1, board.White, board.King), pl(board.A1, board.White, board.Rook), pl(board.G8, board.Black, board.King), pl(board.F7, board.Black, board.Pawn), pl(board.G7, board.Black, board.Pawn), pl(board.H7, board.Black, board.Pawn)}},
	// 2: K+Q v K: mates and stalemates one ply away
	{name: "kq-v-k", turn: board.White, pieces: []board.Placement{pl(board.G6, board.White, board.King), pl(board.F7, board.White, board.Queen), pl(board.H8, board.Black, board.King)}},
	// 3: promotion with under-promotions
	{name: "promotion", turn: board.White, pieces: []board.Placement{pl(board.A1, board.White, board.King), pl(board.A7, board.White, board.Pawn), pl(board.H8, board.Black, board.King)}},
	// 4: side to move is mated in two at best (defender chooses between mates)
	{name: "defender-choice", turn: board.Black, pieces: []board.Placement{pl(board.H8, board.Black, board.King), pl(board.F7, board.White, board.King), pl(board.G1, board.White, board.Rook), pl(board.A6, board.White, board.Rook)}},
	// 5: stalemate at the root's grandchildren (K+P v K)
	{name: "kp-v-k", turn: board.White, pieces: []board.Placement{pl(board.F6, board.White, board.King), pl(board.F7, board.White, board.Pawn), pl(board.F8, board.Black, board.King), pl(board.A2, board.White, board.Pawn), pl(board.A3, board.Black, board.Pawn)}, np: 0},
	// 6: 99 half-moves on the clock: every quiet move is a draw by the fifty-move rule
	{name: "clock-99", turn: board.White, np: 99, pieces: []board.Placement{pl(board.H1, board.White, board.King), pl(board.H4, board.White, board.Pawn), pl(board.H8, board.Black, board.King), pl(board.H5, board.Black, board.Pawn), pl(board.A4, board.White, board.Pawn), pl(board.B5, board.Black, board.Pawn)}},
	// 7: history with a position already seen twice: a third occurrence is reachable in the tree
	{name: "repetition", turn: board.White, pieces: []board.Placement{pl(board.H1, board.White, board.King), pl(board.H4, board.White, board.Pawn), pl(board.H8, board.Black, board.King), pl(board.H5, board.Black, board.Pawn)},
		history: []board.Move{{From: board.H1, To: board.G1}, {From: board.H8, To: board.G8}, {From: board.G1, To: board.H1}, {From: board.G8, To: board.H8}, {From: board.H1, To: board.G1}, {From: board.H8, To: board.G8}, {From: board.G1, To: board.H1}}},
	// 8: a capture leaves K+B v K: insufficient material reached exactly by the capturing move
	{name: "capture-into-dead-draw", turn: board.White, pieces: []board.Placement{pl(board.E1, board.White, board.King), pl(board.C1, board.White, board.Bishop), pl(board.E8, board.Black, board.King), pl(board.G5, board.Black, board.Pawn)}},
	// 9: K+Q+R v K with mates of different length in one node (a mate in one and longer mates at the root)
	{name: "two-mates", turn: board.White, pieces: []board.Placement{pl(board.H7, board.White, board.King), pl(board.D7, board.White, board.Rook), pl(board.D5, board.White, board.Queen), pl(board.E8, board.Black, board.King)}},
	// 10: a capture that forces mate in three plies (Rxb3, Kh8, Rh3#) is ordered before the quiet mate in one (Rh3#):
	// few moves per node, so depth 3 is within reach (the shape seeded change C03_B needs)
	{name: "long-mate-first", turn: board.White, pieces: []board.Placement{pl(board.F7, board.White, board.King), pl(board.G5, board.White, board.Pawn), pl(board.C3, board.White, board.Rook), pl(board.B2, board.White, board.Pawn), pl(board.H7, board.Black, board.King), pl(board.B3, board.Black, board.Pawn)}},
	// 11: tree 10 with the rook's file closed (c4/c5 pawns): fewer root moves, so depth 4 fits the quick tier
	{name: "long-mate-first-small", turn: board.White, pieces: []board.Placement{pl(board.F7, board.White, board.King), pl(board.G5, board.White, board.Pawn), pl(board.C3, board.White, board.Rook), pl(board.B2, board.White, board.Pawn), pl(board.C4, board.White, board.Pawn), pl(board.H7, board.Black, board.King), pl(board.B3, board.Black, board.Pawn), pl(board.C5, board.Black, board.Pawn)}},
}

// harnessZobrist: a fixed table of distinct words (splitmix64); only hash equality matters.
func harnessZobrist() *board.ZobristTable {
	return board.NewZobristTable(1)
}

func mkBoard(i int) *board.Board {
	m := menu[i]
	pos, err := board.NewPosition(m.pieces, 0, 0)
	if err != nil {
		panic("bad menu position")
	}
	b := board.NewBoard(harnessZobrist(), pos, m.turn, m.np, 1)
	for _, h := range m.history {
		ok := false
		for _, lm := range b.Position().LegalMoves(b.Turn()) {
			if lm.From == h.From && lm.To == h.To {
				ok = b.PushMove(lm)
				break
			}
		}
		if !ok {
			panic("bad menu history")
		}
	}
	return b
}

// ---------------------------------------------------------------------------
// Symbolic position-determined evaluator: one of k free float32 values per position.

var leafVals []eval.Pawns

type symEval struct{}

func (symEval) Evaluate(ctx context.Context, b *board.Board) eval.Pawns {
	return leafVals[int(uint64(b.Hash())%uint64(len(leafVals)))]
}

func initLeaves(k int) {
	leafVals = nil
	for i := 0; i < k; i++ {
		v := eval.Pawns(nondetF32("leaf"))
		// finite values of realistic magnitude
		verifAssume(v > -1000 && v < 1000)
		leafVals = append(leafVals, v)
	}
}

// ---------------------------------------------------------------------------
// Reference negamax with its own value domain (no eval.Score operations).
//   kind 0: heuristic p;  kind 1: side to move mates in n plies;  kind 2: side to move is mated in n plies.

type refVal struct {
	kind int
	n    int
	p    eval.Pawns
}

// refBetter: a is strictly better than b for the side to move.
func refBetter(a, b refVal) bool {
	ka, kb := refKey(a), refKey(b)
	if ka != kb {
		return ka > kb
	}
	switch a.kind {
	case 0:
		return a.p > b.p
	case 1:
		return a.n < b.n // mate sooner
	default:
		return a.n > b.n // be mated later
	}
}

func refKey(v refVal) int {
	switch v.kind {
	case 1:
		return 2
	case 0:
		return 1
	}
	return 0
}

func refNeg(v refVal) refVal {
	switch v.kind {
	case 0:
		return refVal{kind: 0, p: -v.p}
	case 1:
		return refVal{kind: 2, n: v.n + 1}
	default:
		return refVal{kind: 1, n: v.n + 1}
	}
}

// refNegamax: exhaustive minimax over the legal moves accepted by pick (nil = all).
func refNegamax(b *board.Board, depth int, ev eval.Evaluator, explore Exploration) refVal {
	if b.Result().Outcome == board.Draw {
		return refVal{}
	}
	if depth == 0 {
		return refVal{kind: 0, p: ev.Evaluate(context.Background(), b)}
	}
	moves := b.Position().LegalMoves(b.Turn())
	if len(moves) == 0 {
		if b.Position().IsChecked(b.Turn()) {
			return refVal{kind: 2, n: 0}
		}
		return refVal{}
	}
	var pick board.MovePredicateFn
	if explore != nil {
		_, pick = explore(context.Background(), b)
	}
	best := refVal{kind: 2, n: -1} // below everything
	for _, m := range moves {
		if pick != nil && !pick(m) {
			continue
		}
		if !b.PushMove(m) {
			panic("legal move rejected")
		}
		v := refNeg(refNegamax(b, depth-1, ev, explore))
		b.PopMove()
		if refBetter(v, best) {
			best = v
		}
	}
	return best
}

// refMatches: the search score s denotes the reference value v.
func refMatches(s eval.Score, v refVal) bool {
	switch v.kind {
	case 0:
		return s.Type == eval.Heuristic && s.Pawns == v.p
	case 1:
		return s.Type == eval.MateInX && int(s.Mate) == v.n
	default:
		if v.n == 0 {
			return s.Type == eval.NegInf
		}
		if v.n < 0 {
			return s.Type == eval.NegInf // no explored move at all: alpha stays at its start value
		}
		return s.Type == eval.MateInX && int(s.Mate) == -v.n
	}
}

type gameSnap struct {
	pos   *board.Position
	turn  board.Color
	hash  board.ZobristHash
	np    int
	ply   int
	fm    int
	last  board.Move
	has   bool
	term  bool
}

func snapGame(b *board.Board) gameSnap {
	lm, has := b.LastMove()
	return gameSnap{pos: b.Position(), turn: b.Turn(), hash: b.Hash(), np: b.NoProgress(), ply: b.Ply(), fm: b.FullMoves(), last: lm, has: has, term: b.Result().Outcome == board.Draw}
}

func isLegalLine(b *board.Board, pv []board.Move) bool {
	n := 0
	ok := true
	for _, m := range pv {
		found := false
		for _, lm := range b.Position().LegalMoves(b.Turn()) {
			if lm == m {
				found = true
			}
		}
		if !found || !b.PushMove(m) {
			ok = false
			break
		}
		n++
	}
	for i := 0; i < n; i++ {
		b.PopMove()
	}
	return ok
}

func harnessAlphaBeta(tree, depth, k int) {
	b := mkBoard(tree)
	initLeaves(k)
	ev := symEval{}
	ctx := context.Background()
	before := snapGame(b)
	verifReach("alphabeta")

	ab := AlphaBeta{Eval: Leaf{Eval: ev}}
	_, score, pv, err := ab.Search(ctx, &Context{TT: NoTranspositionTable{}}, b, depth)
	verifAssert(err == nil, "an uninterrupted search reports no error")
	after := snapGame(b)
	if len(b.Position().LegalMoves(b.Turn())) == 0 {
		after.term = before.term // adjudication of a root without legal moves is accepted
	}
	verifAssert(after == before, "the board is handed back in the game state it was received in")

	want := refNegamax(b, depth, ev, nil)
	verifAssert(refMatches(score, want), "alpha-beta returns the exact minimax value (mate distance in plies against the longest defence, draws as zero)")

	verifAssert(len(pv) <= depth, "the principal variation is no longer than the depth")
	verifAssert(isLegalLine(b, pv), "the principal variation is a legal line from the root")
	hasMove := len(b.Position().LegalMoves(b.Turn())) > 0
	if hasMove && depth > 0 && !before.term {
		verifAssert(len(pv) > 0, "a root with a legal move gets a principal variation")
		if len(pv) > 0 {
			b.PushMove(pv[0])
			first := refNeg(refNegamax(b, depth-1, ev, nil))
			b.PopMove()
			verifAssert(!refBetter(want, first) && !refBetter(first, want), "the first move of the principal variation attains the root value")
		}
	}

	// Minimax agrees as well
	mm := Minimax{Eval: Leaf{Eval: ev}}
	_, s2, _, err2 := mm.Search(ctx, &Context{TT: NoTranspositionTable{}}, b, depth)
	verifAssert(err2 == nil && refMatches(s2, want), "Minimax returns the same exact value")
	verifAssert(snapGame(b) == before, "Minimax hands the board back unchanged")
}

func Harness_C03_T0_D2() { harnessAlphaBeta(0, 2, leafCount()) }
func Harness_C03_T0_D3() { harnessAlphaBeta(0, 3, leafCount()) }
func Harness_C03_T1_D2() { harnessAlphaBeta(1, 2, leafCount()) }
func Harness_C03_T1_D3() { harnessAlphaBeta(1, 3, leafCount()) }
func Harness_C03_T2_D2() { harnessAlphaBeta(2, 2, leafCount()) }
func Harness_C03_T2_D3() { harnessAlphaBeta(2, 3, leafCount()) }
func Harness_C03_T3_D2() { harnessAlphaBeta(3, 2, leafCount()) }
func Harness_C03_T3_D3() { harnessAlphaBeta(3, 3, leafCount()) }
func Harness_C03_T4_D2() { harnessAlphaBeta(4, 2, leafCount()) }
func Harness_C03_T4_D3() { harnessAlphaBeta(4, 3, leafCount()) }
func Harness_C03_T4_D4() { harnessAlphaBeta(4, 4, leafCount()) }
func Harness_C03_T5_D2() { harnessAlphaBeta(5, 2, leafCount()) }
func Harness_C03_T5_D3() { harnessAlphaBeta(5, 3, leafCount()) }
func Harness_C03_T6_D1() { harnessAlphaBeta(6, 1, leafCount()) }
func Harness_C03_T6_D2() { harnessAlphaBeta(6, 2, leafCount()) }
func Harness_C03_T7_D1() { harnessAlphaBeta(7, 1, leafCount()) }
func Harness_C03_T8_D1() { harnessAlphaBeta(8, 1, leafCount()) }
func Harness_C03_T8_D2() { harnessAlphaBeta(8, 2, leafCount()) }
func Harness_C03_T7_D2() { harnessAlphaBeta(7, 2, leafCount()) }
func Harness_C03_T7_D3() { harnessAlphaBeta(7, 3, leafCount()) }
func Harness_C03_T9_D4() { harnessAlphaBeta(9, 4, 1) }
func Harness_C03_T10_D2() { harnessAlphaBeta(10, 2, 1) }
func Harness_C03_T10_D3() { harnessAlphaBeta(10, 3, 1) }
func Harness_C03_T10_D4() { harnessAlphaBeta(10, 4, 1) }
func Harness_C03_T11_D4() { harnessAlphaBeta(11, 4, 1) }

// leafCount: two free leaf values in both tiers (three were used by the thorough tier, whose
// run on the final tree did not finish within 50 minutes; nothing is claimed for it)
func leafCount() int { return 2 }
