package search

import (
	"context"

	"github.com/herohde/morlock/pkg/board"
	"github.com/herohde/morlock/pkg/eval"
)

// C18-1: what a search returns depends only on the game state and the depth: repeating it,
// running other searches before it, or using a different hash seed does not change it.

// seed-independent position-determined evaluator: selected by the occupancy pattern
type occEval struct{}

func (occEval) Evaluate(ctx context.Context, b *board.Board) eval.Pawns {
	return leafVals[int(uint64(b.Position().All())%uint64(len(leafVals)))]
}

func mkBoardSeed(i int, seed int64) *board.Board {
	m := menu[i]
	pos, err := board.NewPosition(m.pieces, 0, 0)
	if err != nil {
		panic("bad menu position")
	}
	b := board.NewBoard(board.NewZobristTable(seed), pos, m.turn, m.np, 1)
	for _, h := range m.history {
		for _, lm := range b.Position().LegalMoves(b.Turn()) {
			if lm.From == h.From && lm.To == h.To {
				b.PushMove(lm)
				break
			}
		}
	}
	return b
}

func harnessDeterminism(tree, depth int) {
	initLeaves(2)
	ev := occEval{}
	ctx := context.Background()
	ab := AlphaBeta{Eval: Leaf{Eval: ev}}
	b1 := mkBoardSeed(tree, 1)
	b2 := mkBoardSeed(tree, 7)
	verifReach("determinism")
	n1, s1, pv1, e1 := ab.Search(ctx, &Context{TT: NoTranspositionTable{}}, b1, depth)
	// another search in between, on another board and depth
	other := mkBoardSeed(3, 5)
	ab.Search(ctx, &Context{TT: NoTranspositionTable{}}, other, 2)
	n1b, s1b, pv1b, e1b := ab.Search(ctx, &Context{TT: NoTranspositionTable{}}, b1, depth)
	verifAssert(e1 == nil && e1b == nil, "searches complete")
	verifAssert(s1 == s1b && samePV(pv1, pv1b) && n1 == n1b, "repeating a search on the same game state returns the same score, variation and node count")
	n2, s2, pv2, e2 := ab.Search(ctx, &Context{TT: NoTranspositionTable{}}, b2, depth)
	verifAssert(e2 == nil && s1 == s2 && samePV(pv1, pv2) && n1 == n2, "a different hash seed does not change score, variation or node count")
	mm := Minimax{Eval: Leaf{Eval: ev}}
	m1, ms1, mpv1, _ := mm.Search(ctx, &Context{TT: NoTranspositionTable{}}, b1, depth)
	m2, ms2, mpv2, _ := mm.Search(ctx, &Context{TT: NoTranspositionTable{}}, b2, depth)
	verifAssert(m1 == m2 && ms1 == ms2 && samePV(mpv1, mpv2), "Minimax is seed independent as well")
}

func Harness_C18_T0_D2() { harnessDeterminism(0, 2) }
func Harness_C18_T6_D2() { harnessDeterminism(6, 2) }
func Harness_C18_T7_D2() { harnessDeterminism(7, 2) }
func Harness_C18_T7_D3() { harnessDeterminism(7, 3) }
func Harness_C18_T3_D2() { harnessDeterminism(3, 2) }
