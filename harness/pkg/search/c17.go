package search

import (
	"context"

	"github.com/herohde/morlock/pkg/board"
	"github.com/herohde/morlock/pkg/eval"
)

type ttWrite struct {
	hash  board.ZobristHash
	bound Bound
	ply   int
	depth int
	score eval.Score
	move  board.Move
}

func symTTWrite(n string) ttWrite {
	w := ttWrite{
		hash:  board.ZobristHash(nondetU64(n + ".hash")),
		bound: Bound(nondetU8(n+".bound") & 1),
		ply:   int(nondetU16(n + ".ply")),
		depth: int(nondetU16(n + ".depth")),
		score: eval.Score{Type: eval.ScoreType(nondetI8(n + ".stype")), Mate: nondetI8(n + ".mate"), Pawns: eval.Pawns(nondetF32(n + ".pawns"))},
		move:  board.Move{From: board.Square(nondetU8(n+".from") & 63), To: board.Square(nondetU8(n+".to") & 63), Promotion: board.Piece(nondetU8(n+".promo") & 7)},
	}
	verifAssume(w.score.Pawns == w.score.Pawns) // not NaN (== is used to compare payloads)
	return w
}

func (w ttWrite) do(t TranspositionTable) bool {
	return t.Write(w.hash, w.bound, w.ply, w.depth, w.score, w.move)
}

// matches: Read returned exactly the payload of w.
func (w ttWrite) matches(b Bound, d int, s eval.Score, m board.Move) bool {
	return b == w.bound && d == w.depth && s == w.score && m == w.move
}

func refTTVal(w ttWrite) int { return (w.ply + (w.depth << 1)) & 0xffff }

// C11/C17: table geometry for every size (bounded so that the slot count stays small).
func Harness_C11_TableSize() {
	size := nondetU64("size")
	verifAssume(size >= 32 && size < 4096)
	verifReach("size")
	tt := NewTranspositionTable(context.Background(), size).(*table)
	n := uint64(len(tt.table))
	verifAssert(n >= 1 && n&(n-1) == 0, "slot count is a power of two")
	verifAssert(tt.mask == n-1, "index mask matches the slot count")
	verifAssert(tt.Size() == n<<5 && tt.Size() <= size, "reported size is 32 bytes per slot and within the requested size")
	verifAssert(2*tt.Size() > size, "no more than half of the requested size is wasted")
	verifAssert(tt.Used() == 0, "a new table is empty")
}

// C17 (sequential consistency of one table): two stores, then a lookup.
func harnessTTSeq(slots uint64) {
	tt := NewTranspositionTable(context.Background(), slots*32).(*table)
	w1, w2 := symTTWrite("w1"), symTTWrite("w2")
	verifReach("tt-seq")
	ok1 := w1.do(tt)
	verifAssert(ok1, "a store into an empty slot succeeds")
	ok2 := w2.do(tt)
	same := uint64(w1.hash)&tt.mask == uint64(w2.hash)&tt.mask
	if same {
		verifAssert(ok2 == (refTTVal(w1) <= refTTVal(w2)), "a store replaces exactly an entry of no greater replacement value")
	} else {
		verifAssert(ok2, "a store into an empty slot succeeds")
	}
	h := board.ZobristHash(nondetU64("probe"))
	b, d, s, m, ok := tt.Read(h)
	if ok {
		from1 := h == w1.hash && w1.matches(b, d, s, m)
		from2 := h == w2.hash && w2.matches(b, d, s, m)
		verifAssert(from1 || from2, "a successful lookup returns the payload of one single store for that hash")
	} else {
		// a miss is only allowed when the entry was not stored or has been replaced
		verifAssert(!(h == w2.hash && ok2), "the most recent successful store for a hash is found")
		verifAssert(!(h == w1.hash && !(same && ok2)), "a stored entry that was not replaced is found")
	}
	occupied := 1
	if !same {
		occupied = 2
	}
	verifAssert(tt.Used() == float64(occupied)/float64(slots), "fill fraction counts every occupied slot exactly once")
	verifAssert(tt.Used() >= 0 && tt.Used() <= 1, "fill fraction in [0,1]")
}

func Harness_C17_Seq1() { harnessTTSeq(1) }
func Harness_C17_Seq2() { harnessTTSeq(2) }
func Harness_C17_Seq4() { harnessTTSeq(4) }

// wrappers pass everything through
func Harness_C17_Wrappers() {
	w := symTTWrite("w")
	verifReach("wrappers")
	var none TranspositionTable = NoTranspositionTable{}
	verifAssert(!w.do(none), "the no-op table stores nothing")
	_, _, _, _, ok := none.Read(w.hash)
	verifAssert(!ok && none.Used() == 0 && none.Size() == 0, "the no-op table finds nothing")
	min := int(nondetU8("min"))
	lim := NewMinDepthTranspositionTable(min)(context.Background(), 64)
	stored := w.do(lim)
	verifAssert(stored == (w.depth >= min), "the depth-limited table stores exactly the entries of at least the minimum depth")
	b, d, s, m, ok2 := lim.Read(w.hash)
	verifAssert(ok2 == stored && (!ok2 || w.matches(b, d, s, m)), "the depth-limited table returns what the inner table holds")
}

// C17 (concurrency): two writers and a reader on one table, every interleaving of their
// synchronisation operations and of the plain accesses to the fill counter.
func harnessTTConcurrent(slots uint64) {
	tt := NewTranspositionTable(context.Background(), slots*32).(*table)
	verifShared(&tt.used)
	w1, w2 := symTTWrite("w1"), symTTWrite("w2")
	probe := board.ZobristHash(nondetU64("probe"))
	done := make(chan bool, 3)
	var ok1, ok2 bool
	var rb Bound
	var rd int
	var rs eval.Score
	var rm board.Move
	var rok bool
	go func() { ok1 = w1.do(tt); done <- true }()
	go func() { ok2 = w2.do(tt); done <- true }()
	go func() { rb, rd, rs, rm, rok = tt.Read(probe); done <- true }()
	<-done
	<-done
	<-done
	verifReach("tt-concurrent")
	if rok {
		verifAssert((probe == w1.hash && w1.matches(rb, rd, rs, rm)) || (probe == w2.hash && w2.matches(rb, rd, rs, rm)), "a concurrent lookup returns the payload of one single store for that hash, never a mixture")
	}
	same := uint64(w1.hash)&tt.mask == uint64(w2.hash)&tt.mask
	if !same {
		verifAssert(ok1 && ok2, "stores into different empty slots both succeed")
	} else {
		verifAssert(ok1 || ok2, "at least one of two competing stores succeeds")
		// the surviving entry is one of no smaller replacement value than the other, unless the other lost the race as the first writer
		b, d, s, m, ok := tt.Read(w2.hash)
		if ok && w1.hash == w2.hash && refTTVal(w1) > refTTVal(w2) {
			verifAssert(w1.matches(b, d, s, m), "a store never replaces an entry of greater replacement value")
		}
		_ = b
		_ = d
		_ = s
		_ = m
	}
	occupied := 1
	if !same {
		occupied = 2
	}
	verifAssert(tt.Used() == float64(occupied)/float64(slots), "at quiescence the fill fraction counts every occupied slot exactly once")
}

func Harness_C17_Concurrent1() { harnessTTConcurrent(1) }
func Harness_C17_Concurrent2() { harnessTTConcurrent(2) }
