package search

import (
	"context"

	"github.com/herohde/morlock/pkg/board"
	"github.com/herohde/morlock/pkg/eval"
)

// C12: halting at any poll is clean. The context reports cancellation from the n-th poll
// on, n symbolic: every cancellation point of the run is covered.

type pollCtx struct {
	context.Context
	n      int
	count  *int
	closed chan struct{}
}

func (c pollCtx) Done() <-chan struct{} {
	*c.count++
	if *c.count > c.n {
		return c.closed
	}
	return nil
}

func newPollCtx(n int) (pollCtx, *int) {
	cnt := new(int)
	ch := make(chan struct{})
	close(ch)
	return pollCtx{Context: context.Background(), n: n, count: cnt, closed: ch}, cnt
}

func samePV(a, b []board.Move) bool {
	if len(a) != len(b) {
		return false
	}
	for i := range a {
		if a[i] != b[i] {
			return false
		}
	}
	return true
}

func harnessHalt(tree, depth int, size uint64, quiescence bool) {
	b := mkBoard(tree)
	var leaf QuietSearch = Leaf{Eval: eval.Material{}}
	if quiescence {
		leaf = Quiescence{Explore: capturesOnly, Eval: Leaf{Eval: eval.Material{}}}
	}
	ab := AlphaBeta{Eval: leaf}
	tt := NewTranspositionTable(context.Background(), size)
	n := nondetInt("cancel-at-poll")
	verifAssume(n >= 0 && n < 100000)
	ctx, cnt := newPollCtx(n)
	before := snapGame(b)
	verifReach("halt")

	_, score, pv, err := ab.Search(ctx, &Context{TT: tt}, b, depth)
	halted := *cnt > n
	if halted {
		verifReach("halted")
		verifAssert(err == ErrHalted, "a halted search reports that it was halted")
		verifAssert(score.IsInvalid() && pv == nil, "a halted search reports no score and no variation")
	} else {
		verifAssert(err == nil && !score.IsInvalid(), "a search that was not halted reports a score")
	}
	after := snapGame(b)
	if len(b.Position().LegalMoves(b.Turn())) == 0 {
		after.term = before.term
	}
	verifAssert(after == before, "a halted search hands the board back in the game state it received it in")

	// nothing is left behind: the same search afterwards, with the table kept, returns
	// what it returns on a fresh table
	bg := context.Background()
	_, s2, pv2, err2 := ab.Search(bg, &Context{TT: tt}, b, depth)
	_, s3, pv3, err3 := ab.Search(bg, &Context{TT: NewTranspositionTable(bg, size)}, b, depth)
	verifAssert(err2 == nil && err3 == nil, "follow-up searches complete")
	verifAssert(s2 == s3, "after a halt, a search with the same table returns the score it would have returned had the halted search never run")
	// The variation may legitimately be cut short by (true) exact entries of completed
	// sub-searches, exactly as under C11: what must be unaffected is the move it begins with.
	verifAssert((len(pv2) > 0) == (len(pv3) > 0), "after a halt, a search with the same table still produces a variation whenever a fresh search does")
	if len(pv2) > 0 && len(pv3) > 0 {
		mev := eval.Material{}
		want := refNegamax(b, depth, mev, nil)
		ok := false
		for _, lm := range b.Position().LegalMoves(b.Turn()) {
			if lm.From == pv2[0].From && lm.To == pv2[0].To && lm.Promotion == pv2[0].Promotion {
				b.PushMove(lm)
				first := refNeg(refNegamax(b, depth-1, mev, nil))
				b.PopMove()
				ok = !refBetter(want, first) && !refBetter(first, want)
			}
		}
		verifAssert(ok, "after a halt, the variation of a search with the same table begins with a best legal move")
	}

	// Minimax is halted cleanly too
	ctx2, cnt2 := newPollCtx(n)
	mm := Minimax{Eval: Leaf{Eval: eval.Material{}}}
	_, _, mpv, merr := mm.Search(ctx2, &Context{TT: NoTranspositionTable{}}, b, depth)
	if *cnt2 > n {
		verifAssert(merr == ErrHalted && mpv == nil, "a halted Minimax reports that it was halted")
	} else {
		verifAssert(merr == nil, "Minimax not halted reports no error")
	}
	a2 := snapGame(b)
	if len(b.Position().LegalMoves(b.Turn())) == 0 {
		a2.term = before.term
	}
	verifAssert(a2 == before, "a halted Minimax hands the board back unchanged")
}

func Harness_C12_T0_D2()  { harnessHalt(0, 2, 4096, false) }
func Harness_C12_T0_D3()  { harnessHalt(0, 3, 32, false) }
func Harness_C12_T3_D2()  { harnessHalt(3, 2, 4096, false) }
func Harness_C12_T4_D3()  { harnessHalt(4, 3, 4096, false) }
func Harness_C12_T5_D3()  { harnessHalt(5, 3, 64, false) }
func Harness_C12_T3_Q()   { harnessHalt(3, 2, 4096, true) }
func Harness_C12_T7_D2()  { harnessHalt(7, 2, 4096, false) }
