package search

import (
	"context"

	"github.com/herohde/morlock/pkg/board"
	"github.com/herohde/morlock/pkg/eval"
)

// C11: the transposition table is transparent.

type ttRec struct {
	snap  *board.Board // fork of the board at the time of the write
	depth int
	score eval.Score
	move  board.Move
}

var ttBoard *board.Board
var ttLog []ttRec

// recTT wraps the real table and records every exact store together with the game state.
type recTT struct{ inner TranspositionTable }

func (r recTT) Read(hash board.ZobristHash) (Bound, int, eval.Score, board.Move, bool) {
	return r.inner.Read(hash)
}

func (r recTT) Write(hash board.ZobristHash, bound Bound, ply, depth int, score eval.Score, move board.Move) bool {
	if bound == ExactBound && ttBoard != nil && ttBoard.Hash() == hash {
		ttLog = append(ttLog, ttRec{snap: ttBoard.Fork(), depth: depth, score: score, move: move})
	}
	return r.inner.Write(hash, bound, ply, depth, score, move)
}
func (r recTT) Size() uint64  { return r.inner.Size() }
func (r recTT) Used() float64 { return r.inner.Used() }

var ttQuiescence bool

func checkSearch(b *board.Board, tt TranspositionTable, depth int, ev symEval, tag string) {
	ab := AlphaBeta{Eval: Leaf{Eval: ev}}
	if ttQuiescence {
		checkSearchQ(b, tt, depth, tag)
		return
	}
	_, score, pv, err := ab.Search(context.Background(), &Context{TT: tt}, b, depth)
	verifAssert(err == nil, tag+": no error")
	want := refNegamax(b, depth, ev, nil)
	verifAssert(refMatches(score, want), tag+": with a table the root score equals the score without a table")
	if len(b.Position().LegalMoves(b.Turn())) > 0 && b.Result().Outcome != board.Draw {
		verifAssert(len(pv) > 0, tag+": with a table the principal variation still begins with a move")
		if len(pv) > 0 {
			legal := false
			for _, lm := range b.Position().LegalMoves(b.Turn()) {
				if lm.From == pv[0].From && lm.To == pv[0].To && lm.Promotion == pv[0].Promotion {
					legal = true
				}
			}
			verifAssert(legal, tag+": the first move of the principal variation is legal")
			if legal {
				for _, lm := range b.Position().LegalMoves(b.Turn()) {
					if lm.From == pv[0].From && lm.To == pv[0].To && lm.Promotion == pv[0].Promotion {
						b.PushMove(lm)
						first := refNeg(refNegamax(b, depth-1, ev, nil))
						b.PopMove()
						verifAssert(!refBetter(want, first) && !refBetter(first, want), tag+": the first move of the principal variation is a best move")
					}
				}
			}
		}
	}
}

func checkLog(ev symEval) {
	for _, r := range ttLog {
		want := refNegamax(r.snap, r.depth, ev, nil)
		verifAssert(refMatches(r.score, want), "every exact entry stored is the true search value of that position at that depth")
	}
}

func harnessTT(tree, maxDepth int, size uint64, k int) {
	b := mkBoard(tree)
	initLeaves(k)
	ev := symEval{}
	tt := recTT{inner: NewTranspositionTable(context.Background(), size)}
	ttBoard, ttLog = b, nil
	verifReach("tt")
	// iterative deepening on one table
	for d := 1; d <= maxDepth; d++ {
		checkSearch(b, tt, d, ev, "first search")
	}
	// the same position searched again with the table kept
	checkSearch(b, tt, maxDepth, ev, "repeated search")
	// shallower searches on the table filled by the deeper ones (iterative deepening of a
	// later move restarts at depth 1 and meets positions stored at greater depth)
	for d := 1; d < maxDepth; d++ {
		checkSearch(b, tt, d, ev, "shallower re-search")
	}
	if !ttQuiescence {
		checkLog(ev)
	}
	// the position after the best move (successive positions of a game)
	moves := b.Position().LegalMoves(b.Turn())
	if len(moves) > 0 {
		b.PushMove(moves[0])
		ttLog = nil
		// the next move of a game restarts iterative deepening at depth 1 on the kept table
		for d := 1; d <= maxDepth; d++ {
			checkSearch(b, tt, d, ev, "next position")
		}
		if !ttQuiescence {
			checkLog(ev)
		}
		b.PopMove()
	}
	ttBoard = nil
}

func Harness_C11_T0_S1() { harnessTT(0, 2, 32, 2) }
func Harness_C11_T0_S2() { harnessTT(0, 2, 64, 2) }
func Harness_C11_T0_S128() { harnessTT(0, 2, 4096, 2) }
func Harness_C11_T0_D3() { harnessTT(0, 3, 4096, 2) }
func Harness_C11_T3_S1() { harnessTT(3, 2, 32, 2) }
func Harness_C11_T3_S128() { harnessTT(3, 2, 4096, 2) }
func Harness_C11_T4_S128() { harnessTT(4, 3, 4096, 2) }
func Harness_C11_T5_S2() { harnessTT(5, 2, 64, 2) }
func Harness_C11_T5_S128() { harnessTT(5, 3, 4096, 2) }

// quiescence leaf search: the reference is a table-free search of the same configuration
// (its agreement with the definition is C13's subject); the table must not change the score.
func checkSearchQ(b *board.Board, tt TranspositionTable, depth int, tag string) {
	ab := AlphaBeta{Eval: Quiescence{Explore: capturesOnly, Eval: Leaf{Eval: eval.Material{}}}}
	_, score, pv, err := ab.Search(context.Background(), &Context{TT: tt}, b, depth)
	_, want, _, err2 := ab.Search(context.Background(), &Context{TT: NoTranspositionTable{}}, b, depth)
	verifAssert(err == nil && err2 == nil, tag+": no error")
	verifAssert(score == want, tag+": with a table the root score (quiescence leaf search) equals the score without a table")
	if len(b.Position().LegalMoves(b.Turn())) > 0 && b.Result().Outcome != board.Draw {
		verifAssert(len(pv) > 0, tag+": with a table the principal variation still begins with a move")
	}
}

func harnessTTQuiet(i, maxDepth int, size uint64) {
	m := quietMenu[i]
	pos, err := board.NewPosition(m.pieces, 0, 0)
	if err != nil {
		panic("bad quiet menu")
	}
	b := board.NewBoard(harnessZobrist(), pos, m.turn, m.np, 1)
	initLeaves(2)
	ttQuiescence = true
	tt := recTT{inner: NewTranspositionTable(context.Background(), size)}
	ttBoard, ttLog = nil, nil
	verifReach("tt-quiescence")
	ev := symEval{}
	// a narrow-window search first (as aspiration / inner nodes do), then full-window searches
	alpha, beta := symBound("alpha", false), symBound("beta", false)
	verifAssume(refBetter(toRef(beta), toRef(alpha)))
	ab := AlphaBeta{Eval: Quiescence{Explore: capturesOnly, Eval: Leaf{Eval: eval.Material{}}}}
	ab.Search(context.Background(), &Context{Alpha: alpha, Beta: beta, TT: tt}, b, maxDepth)
	for d := 1; d <= maxDepth; d++ {
		checkSearch(b, tt, d, ev, "first search")
	}
	checkSearch(b, tt, maxDepth, ev, "repeated search")
	ttQuiescence = false
}

func Harness_C11_Q0() { harnessTTQuiet(0, 2, 4096) }
func Harness_C11_Q1() { harnessTTQuiet(1, 2, 4096) }
func Harness_C11_Q0_S1() { harnessTTQuiet(0, 1, 32) }

func Harness_C11_T1_S128() { harnessTT(1, 2, 4096, 2) }
func Harness_C11_T4_D2()   { harnessTT(4, 2, 4096, 2) }
func Harness_C11_T2_S2()   { harnessTT(2, 2, 64, 2) }
