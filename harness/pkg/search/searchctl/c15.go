package searchctl

import (
	"context"
	"time"

	"github.com/herohde/morlock/pkg/board"
	"github.com/herohde/morlock/pkg/eval"
	"github.com/herohde/morlock/pkg/search"
	"github.com/seekerror/stdlib/pkg/lang"
	"github.com/seekerror/stdlib/pkg/util/contextx"
	"github.com/seekerror/stdlib/pkg/util/iox"
)

// C15-1: the limits granted under a time control, for every clock, moves-to-go and colour.
func Harness_C15_Limits() {
	tc := TimeControl{White: time.Duration(nondetI64("white")), Black: time.Duration(nondetI64("black")), Moves: nondetInt("moves")}
	c := board.Color(nondetU8("colour") & 1)
	remaining := tc.White
	if c == board.Black {
		remaining = tc.Black
	}
	verifAssume(remaining >= 0)
	verifReach("limits")
	soft, hard := tc.Limits(c) // must not panic for any parameters
	verifAssert(soft >= 0, "soft limit is not negative")
	verifAssert(hard >= soft, "hard limit is at least the soft limit")
	verifAssert(hard <= remaining, "the hard limit never exceeds the time left on the clock")
}

// ---------------------------------------------------------------------------
// C15-2: the iterative-deepening loop, run as a function with a stub root search whose
// results are symbolic.

type stubCall struct {
	depth       int
	alpha, beta eval.Score
	b           *board.Board
	tt          search.TranspositionTable
}

type stubSearch struct {
	calls   []stubCall
	scores  []eval.Score
	halted  []bool
	nodes   []uint64
	maxCall int
}

func symValidScore(n string) eval.Score {
	t := nondetU8(n+".kind") & 3
	m := nondetI8(n + ".mate")
	verifAssume(m != 0 && m != -128)
	p := eval.Pawns(nondetF32(n + ".pawns"))
	verifAssume(p > -1000 && p < 1000)
	switch t {
	case 0:
		return eval.HeuristicScore(p)
	case 1:
		return eval.MateInXScore(m)
	case 2:
		return eval.InfScore
	}
	return eval.NegInfScore
}

func (s *stubSearch) Search(ctx context.Context, sctx *search.Context, b *board.Board, depth int) (uint64, eval.Score, []board.Move, error) {
	i := len(s.calls)
	s.calls = append(s.calls, stubCall{depth: depth, alpha: sctx.Alpha, beta: sctx.Beta, b: b, tt: sctx.TT})
	if i >= s.maxCall {
		return 0, eval.InvalidScore, nil, search.ErrHalted // bound of the harness: the run is ended as a halt would
	}
	sc := symValidScore("score")
	halted := nondetBool("halted")
	n := nondetU64("nodes")
	s.scores = append(s.scores, sc)
	s.halted = append(s.halted, halted)
	s.nodes = append(s.nodes, n)
	if halted {
		return 0, eval.InvalidScore, nil, search.ErrHalted
	}
	return n, sc, []board.Move{{From: board.Square(depth), To: board.Square(depth + 8)}}, nil
}

func mateWithin(s eval.Score, depth int) bool {
	switch s.Type {
	case eval.Inf, eval.NegInf:
		return true
	case eval.MateInX:
		d := int(s.Mate)
		if d < 0 {
			d = -d
		}
		return d <= depth
	}
	return false
}

func Harness_C15_Loop() {
	h := &handle{init: iox.NewAsyncCloser(), quit: iox.NewAsyncCloser()}
	out := make(chan search.PV, 1)
	stub := &stubSearch{maxCall: 3}
	var opt Options
	limit := uint(verifSplit(uint64(nondetU8("limit")), 0, 4)) // 0 = no depth limit
	if limit > 0 {
		opt.DepthLimit = lang.Some(limit)
	}
	pos, _ := board.NewPosition([]board.Placement{{Square: board.E1, Color: board.White, Piece: board.King}, {Square: board.E8, Color: board.Black, Piece: board.King}}, 0, 0)
	b := board.NewBoard(board.NewZobristTable(0), pos, board.White, 0, 1)
	tt := search.NoTranspositionTable{}
	verifReach("loop")
	h.process(context.Background(), stub, b, tt, eval.Random{}, opt, out)

	// every call: next depth, full window, the given board and table
	for i, c := range stub.calls {
		verifAssert(c.depth == i+1, "iterations search depth 1, 2, 3, ... in increasing order")
		verifAssert(c.alpha == eval.NegInfScore && c.beta == eval.InfScore, "every iteration searches the full window")
		verifAssert(c.b == b, "every iteration searches the given board")
	}
	// completed iterations and the reason the loop ended
	done := 0
	for i := range stub.scores {
		if stub.halted[i] {
			break
		}
		done++
		stop := (limit > 0 && uint(i+1) == limit) || mateWithin(stub.scores[i], i+1)
		last := i == len(stub.scores)-1 && len(stub.calls) == len(stub.scores)
		if stop {
			verifAssert(last, "the analysis ends at the requested depth limit or as soon as a forced mate within the searched depth is found")
		} else {
			verifAssert(!last, "otherwise the analysis goes on to the next depth")
		}
	}
	// what is reported: the last completed iteration, faithfully
	verifAssert(h.init.IsClosed(), "the first-iteration latch is released when the analysis ends")
	pv, ok := <-out
	if done > 0 {
		verifAssert(ok, "a completed iteration is reported")
		verifAssert(pv.Depth == done && pv.Score == stub.scores[done-1] && pv.Nodes == stub.nodes[done-1] && len(pv.Moves) == 1 && int(pv.Moves[0].From) == done, "the report carries the depth, score, nodes and variation the search returned for that depth")
		verifAssert(h.pv.Depth == done && h.pv.Score == stub.scores[done-1], "Halt would return the last completed iteration")
		_, more := <-out
		verifAssert(!more, "the report channel is closed when the analysis ends")
	} else {
		verifAssert(!ok, "without a completed iteration nothing is reported and the channel is closed")
	}
}

// ---------------------------------------------------------------------------
// C15-3: Halt against a running analysis (real goroutines of Launch, every interleaving
// up to the preemption bound): never returns before depth 1 is complete, returns a fully
// completed iteration at least as deep as everything reported before the halt.

type gatedSearch struct{ k int }

func (g *gatedSearch) Search(ctx context.Context, sctx *search.Context, b *board.Board, depth int) (uint64, eval.Score, []board.Move, error) {
	if depth > 1 && contextx.IsCancelled(ctx) {
		return 0, eval.InvalidScore, nil, search.ErrHalted
	}
	if depth > g.k {
		// deeper iterations only end by cancellation
		<-ctx.Done()
		return 0, eval.InvalidScore, nil, search.ErrHalted
	}
	return uint64(depth), eval.HeuristicScore(eval.Pawns(depth)), []board.Move{{From: board.Square(depth), To: board.Square(depth + 8)}}, nil
}

func Harness_C15_Halt() {
	k := int(verifSplit(uint64(nondetU8("iterations")), 1, 2))
	it := &Iterative{Root: &gatedSearch{k: k}}
	pos, _ := board.NewPosition([]board.Placement{{Square: board.E1, Color: board.White, Piece: board.King}, {Square: board.E8, Color: board.Black, Piece: board.King}}, 0, 0)
	b := board.NewBoard(board.NewZobristTable(0), pos, board.White, 0, 1)
	h, out := it.Launch(context.Background(), b, search.NoTranspositionTable{}, eval.Random{}, Options{})
	verifReach("halt-race")
	// what has been reported before the halt is requested
	seen := 0
	select {
	case pv, ok := <-out:
		if ok {
			seen = pv.Depth
		}
	default:
	}
	pv := h.Halt()
	verifAssert(pv.Depth >= 1, "Halt never returns before depth 1 is complete")
	verifAssert(pv.Depth >= seen, "Halt returns an iteration at least as deep as every iteration reported before the halt was requested")
	verifAssert(pv.Depth <= k && pv.Score == eval.HeuristicScore(eval.Pawns(pv.Depth)) && len(pv.Moves) == 1 && int(pv.Moves[0].From) == pv.Depth, "Halt returns a fully completed iteration")
	// the analysis goroutine ends: the report channel gets closed
	for {
		if _, ok := <-out; !ok {
			break
		}
	}
}
