package searchctl

import (
	"time"

	"github.com/herohde/morlock/pkg/board"
)

// C15-1: the limits granted under a time control, for every clock, moves-to-go and colour.
func Harness_C15_Limits() {
	tc := TimeControl{White: time.Duration(nondetI64("white")), Black: time.Duration(nondetI64("black")), Moves: nondetInt("moves")}
	c := board.Color(nondetU8("colour") & 1)
	remaining := tc.White
	if c == board.Black {
		remaining = tc.Black
	}
	verifAssume(remaining >= 0)
	verifReach("limits")
	soft, hard := tc.Limits(c) // must not panic for any parameters
	verifAssert(soft >= 0, "soft limit is not negative")
	verifAssert(hard >= soft, "hard limit is at least the soft limit")
	verifAssert(hard <= remaining, "the hard limit never exceeds the time left on the clock")
}
