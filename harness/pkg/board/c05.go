package board

import "math/bits"

// C05 / C08 / C07-2 / C14(reported clocks): one step of the game board from an arbitrary
// valid board state. The history is not replayed: a chain of nodes is constructed directly
// (unexported fields), constrained by the representation invariant of Board.

func fromPosition(p *Position) *refPos {
	r := &refPos{}
	for c := White; c <= Black; c++ {
		for k := Pawn; k <= King; k++ {
			r.pc[c][k] = uint64(p.pieces[c][k])
		}
	}
	r.castling = uint8(p.castling)
	r.ep = int(p.enpassant)
	return r
}

// specMove: Position.Move summarised by "legal iff the rules say so; result = successor of
// the rules" -- which is what C02 establishes for Position.Move.
func specMove(p *Position, m Move) (*Position, bool) {
	r := fromPosition(p)
	fb := refBit(int(m.From))
	turn := White
	if r.side(Black)&fb != 0 {
		turn = Black
	} else if r.side(White)&fb == 0 {
		return nil, false
	}
	if !refLegal(r, turn, m) {
		return nil, false
	}
	return toPosition(refSuccessor(r, turn, m)), true
}

type histNode struct {
	pos  *Position
	turn Color
	hash ZobristHash
}

// the constructed history, visible to specZobristMove
var harnessHist []histNode

func samePos(a, b *Position) bool {
	ok := a.castling == b.castling
	ok = verifAnd(ok, a.enpassant == b.enpassant)
	for c := White; c <= Black; c++ {
		for k := Pawn; k <= King; k++ {
			ok = verifAnd(ok, a.pieces[c][k] == b.pieces[c][k])
		}
	}
	return ok
}

// specZobristMove: the incremental hash summarised by its contract (C07): it is the hash of
// the position reached -- equal to the hash of every earlier identical (position, side), and
// otherwise an arbitrary value (collisions allowed).
var harnessNext *Position
var harnessNextTurn Color
var harnessNewHash ZobristHash

// newHashContract draws the hash of the position about to be reached, once.
func newHashContract() ZobristHash {
	nh := ZobristHash(nondetU64("hash.new"))
	if verifNative() {
		return nh // native replay runs the real ZobristTable.Move; the contract is not used
	}
	for _, n := range harnessHist {
		if n.turn == harnessNextTurn {
			verifAssume(!samePos(n.pos, harnessNext) || nh == n.hash)
		}
	}
	return nh
}

func specZobristMove(z *ZobristTable, h ZobristHash, pos *Position, m Move) ZobristHash {
	return harnessNewHash
}

func refIrreversible(m Move) bool {
	return m.Type == Push || m.Type == Jump || m.Type == EnPassant || m.Type == Capture || m.Type == Promotion || m.Type == CapturePromotion
}

// refInsufficient: K v K, K+minor v K, or kings with two bishops on same-coloured squares.
func refInsufficient(r *refPos) bool {
	n := bits.OnesCount64(r.occ())
	minors := r.pc[White][Knight] | r.pc[Black][Knight] | r.pc[White][Bishop] | r.pc[Black][Bishop]
	bishops := r.pc[White][Bishop] | r.pc[Black][Bishop]
	// light squares: (file + rank) odd, written out per rank
	var light uint64
	for a := 0; a < 64; a++ {
		if ((a&7)+(a>>3))&1 == 1 {
			light |= refBit(a)
		}
	}
	nm, nb, nbLight := bits.OnesCount64(minors), bits.OnesCount64(bishops), bits.OnesCount64(bishops&light)
	if n == 2 {
		return true
	}
	if n == 3 {
		return nm == 1
	}
	if n == 4 {
		return nb == 2 && nbLight != 1
	}
	return false
}

type boardSnap struct {
	pos        *Position
	turn       Color
	hash       ZobristHash
	np, ply    int
	moves      int
	castledW   bool
	castledB   bool
	last       Move
	hasLast    bool
	second     Move
	hasSecond  bool
	moved      Bitboard
	rep        int
}

func snapBoard(b *Board, limit int, probe ZobristHash) boardSnap {
	var s boardSnap
	s.pos, s.turn, s.hash, s.np, s.ply, s.moves = b.Position(), b.Turn(), b.Hash(), b.NoProgress(), b.Ply(), b.FullMoves()
	s.castledW, s.castledB = b.HasCastled(White), b.HasCastled(Black)
	s.last, s.hasLast = b.LastMove()
	s.second, s.hasSecond = b.SecondToLastMove()
	s.moved = b.HasMoved(limit)
	s.rep = b.repetitions[probe]
	return s
}

func sameSnap(a, b boardSnap) bool {
	ok := a.pos == b.pos
	ok = verifAnd(ok, a.turn == b.turn)
	ok = verifAnd(ok, a.hash == b.hash)
	ok = verifAnd(ok, a.np == b.np)
	ok = verifAnd(ok, a.ply == b.ply)
	ok = verifAnd(ok, a.moves == b.moves)
	ok = verifAnd(ok, a.castledW == b.castledW)
	ok = verifAnd(ok, a.castledB == b.castledB)
	ok = verifAnd(ok, a.last == b.last)
	ok = verifAnd(ok, a.hasLast == b.hasLast)
	ok = verifAnd(ok, a.second == b.second)
	ok = verifAnd(ok, a.hasSecond == b.hasSecond)
	ok = verifAnd(ok, a.moved == b.moved)
	ok = verifAnd(ok, a.rep == b.rep)
	return ok
}

// buildBoard constructs a board whose history has k earlier nodes. Positions of earlier
// nodes are chosen among a pool of three arbitrary positions and the current one, so that
// any repetition pattern can occur.
func buildBoard(k int, turn Color, rlast *refPos) (*Board, []*node, []int) {
	last := toPosition(rlast)
	pool := [3]*Position{toPosition(symRefPos()), toPosition(symRefPos()), toPosition(symRefPos())}
	zt := &ZobristTable{}
	if verifNative() {
		zt = NewZobristTable(0) // native replay: real table, real hashes
	}
	b := &Board{zt: zt, repetitions: map[ZobristHash]int{}}
	nodes := make([]*node, k+1)
	refclock := make([]int, k+1)
	harnessHist = nil
	c0 := nondetInt("clock0")
	verifAssume(c0 >= 0 && c0 < 1000)
	t := turn
	if k&1 == 1 {
		t = turn.Opponent()
	}
	var prev *node
	np, rc := c0, c0
	for j := 0; j <= k; j++ {
		var pos *Position
		if j == k {
			pos = last
		} else {
			sel := nondetU8("sel") & 3
			pp := *pool[0]
			if sel == 1 {
				pp = *pool[1]
			}
			if sel == 2 {
				pp = *pool[2]
			}
			if sel == 3 {
				pp = *last
			}
			pos = &pp
		}
		h := ZobristHash(nondetU64("hash"))
		if verifNative() {
			h = zt.Hash(pos, t)
		}
		// equal (position, side) => equal hash; collisions are allowed
		for _, e := range harnessHist {
			if e.turn == t {
				verifAssume(!samePos(e.pos, pos) || e.hash == h)
			}
		}
		n := &node{pos: pos, hash: h, noprogress: np, prev: prev}
		nodes[j] = n
		refclock[j] = rc
		harnessHist = append(harnessHist, histNode{pos: pos, turn: t, hash: h})
		b.repetitions[h]++
		if j < k {
			mv := symMove()
			verifAssume(mv.Type >= Normal && mv.Type <= CapturePromotion)
			n.next = mv
			np = updateNoProgress(np, mv) // the board's own clock, as real play maintains it
			if refIrreversible(mv) {
				rc = 0
			} else {
				rc = rc + 1
			}
		}
		prev = n
		t = t.Opponent()
	}
	b.current = nodes[k]
	b.turn = turn
	b.ply = k + 1
	b.moves = nondetInt("fullmoves")
	verifAssume(b.moves >= 1 && b.moves < 100000)
	b.hasCastled[White] = nondetBool("castledW")
	b.hasCastled[Black] = nondetBool("castledB")
	// a side that still has a castling right has not castled
	verifAssume(!(b.hasCastled[White] && rlast.castling&3 != 0))
	verifAssume(!(b.hasCastled[Black] && rlast.castling&12 != 0))
	if nondetBool("undecided") {
		b.result = Result{Outcome: Undecided}
	}
	return b, nodes, refclock
}

func harnessBoardStep(k int, turn Color, mtype MoveType) {
	rlast := symRefPos()
	verifAssume(refLegalPos(rlast, turn))
	m := symMove()
	m.Type = mtype
	verifAssume(refGenForm(rlast, turn, m))
	verifAssume(refLegal(rlast, turn, m))
	b, nodes, refclock := buildBoard(k, turn, rlast)
	newTurn := turn.Opponent()
	N := toPosition(refSuccessor(rlast, turn, m))
	harnessNext, harnessNextTurn = N, newTurn
	harnessNewHash = newHashContract()

	// chess axiom: a position from before an irreversible move (pawn move, capture, castling)
	// cannot recur after it
	irrev := refIrreversible(m) || m.Type == KingSideCastle || m.Type == QueenSideCastle
	cnt := 1
	t := turn
	for j := k; j >= 0; j-- {
		if j < k {
			mv := nodes[j].next
			irrev = verifOr(irrev, verifOr(refIrreversible(mv), mv.Type == KingSideCastle || mv.Type == QueenSideCastle))
		}
		same := samePos(nodes[j].pos, N)
		if t == newTurn {
			verifAssume(!(irrev && same))
			cnt += int(verifIte(same, 1, 0))
		}
		t = t.Opponent()
	}
	rcNew := refclock[k] + 1
	if refIrreversible(m) {
		rcNew = 0
	}

	probe := ZobristHash(nondetU64("probe"))
	before := snapBoard(b, 3, probe)
	fmBefore := b.FullMoves()
	verifReach("board-step")

	ok := b.PushMove(m)
	verifAssert(ok, "a legal move is accepted by the board")
	if !ok {
		return
	}
	verifReach("pushed")
	// --- C05: result ---
	rep := cnt >= 3
	clock := rcNew >= 100
	insuff := (m.Type == Capture || ((m.Type == Promotion || m.Type == CapturePromotion) && (m.Promotion == Bishop || m.Promotion == Knight))) && refInsufficient(fromPosition(N))
	res := b.Result()
	verifAssert((res.Outcome == Draw) == (rep || clock || insuff), "drawn exactly when the position has occurred 3 times, or 100 half-moves passed without pawn move or capture, or the capture/under-promotion left insufficient material")
	if rep && !clock && !insuff {
		if cnt >= 5 {
			verifAssert(res.Reason == Repetition5, "named five-fold from the fifth occurrence")
		} else {
			verifAssert(res.Reason == Repetition3, "named three-fold repetition")
		}
	}
	// --- C14: reported clocks ---
	verifAssert(b.NoProgress() == rcNew, "half-move clock = half-moves since the last pawn move or capture")
	wantFM := fmBefore
	if turn == Black {
		wantFM++
	}
	verifAssert(b.FullMoves() == wantFM, "full-move number is incremented after each Black move")
	// --- C07-2: the board's hash is the hash of the position reached (via the step contract) ---
	verifAssert(samePos(b.Position(), N) && b.Turn() == newTurn, "board position and side to move after the move")
	lm, has := b.LastMove()
	verifAssert(has && lm == m, "LastMove reports the move just played")
	verifAssert(b.HasCastled(turn) == (before.castledOf(turn) || m.Type == KingSideCastle || m.Type == QueenSideCastle), "has-castled flag")
	after := snapBoard(b, 3, probe)

	// --- C08: take-back restores everything ---
	pm, pok := b.PopMove()
	verifAssert(pok && pm == m, "PopMove returns the move taken back")
	verifAssert(sameSnap(snapBoard(b, 3, probe), before), "take-back restores position, side, hash, clocks, counters, castled flags, last-move and moved-piece queries and repetition counts")
	verifAssert(b.Result().Outcome != Draw, "after a take-back the game is not reported drawn")
	ok2 := b.PushMove(m)
	verifAssert(ok2, "the move can be played again after the take-back")
	if ok2 {
		a2 := snapBoard(b, 3, probe)
		a2.pos, after.pos = nil, nil // fresh successor objects: compare contents below
		verifAssert(sameSnap(a2, after) && samePos(b.Position(), N), "play continues identically after a take-back")
		res2 := b.Result()
		verifAssert((res2.Outcome == Draw) == (res.Outcome == Draw) && (res.Outcome != Draw || res2.Reason == res.Reason), "same result when the move is played again")
	}
}

func (s boardSnap) castledOf(c Color) bool {
	if c == White {
		return s.castledW
	}
	return s.castledB
}

func Harness_C05_W_Normal()  { harnessBoardStep(histLen(), White, Normal) }
func Harness_C05_B_Normal()  { harnessBoardStep(histLen(), Black, Normal) }
func Harness_C05_W_Capture() { harnessBoardStep(histLen(), White, Capture) }
func Harness_C05_B_Capture() { harnessBoardStep(histLen(), Black, Capture) }
func Harness_C05_W_Push()    { harnessBoardStep(histLen(), White, Push) }
func Harness_C05_B_Jump()    { harnessBoardStep(histLen(), Black, Jump) }
func Harness_C05_W_EP()      { harnessBoardStep(histLen(), White, EnPassant) }
func Harness_C05_B_Promo()   { harnessBoardStep(histLen(), Black, Promotion) }
func Harness_C05_W_CapPromo() { harnessBoardStep(histLen(), White, CapturePromotion) }
func Harness_C05_W_CastleK() { harnessBoardStep(histLen(), White, KingSideCastle) }
func Harness_C05_B_CastleQ() { harnessBoardStep(histLen(), Black, QueenSideCastle) }

// histLen: four earlier history nodes in both tiers. Chains of eight were built for the thorough
// tier, but its run did not finish within the time available and nothing is claimed for them.
func histLen() int { return 4 }

// ---- adjudication with no legal move: checkmate iff the side to move is in check ----

func Harness_C05_Adjudicate() {
	turn := Color(nondetU8("turn") & 1)
	r := symRefPos()
	verifAssume(refLegalPos(r, turn))
	np, fm := nondetInt("np"), nondetInt("fm")
	verifAssume(np >= 0 && np < 1000 && fm >= 1 && fm < 100000)
	b := NewBoard(&ZobristTable{}, toPosition(r), turn, np, fm)
	// whatever was flagged before (nothing, undecided, or a draw that play continued past)
	switch nondetU8("prior") & 3 {
	case 1:
		b.result = Result{Outcome: Undecided}
	case 2:
		b.result = Result{Outcome: Draw, Reason: Repetition3}
	case 3:
		b.result = Result{Outcome: Draw, Reason: NoProgress}
	}
	verifReach("adjudicate")
	res := b.AdjudicateNoLegalMoves()
	inCheck := refAttacked(r, turn.Opponent(), refKingSq(r, turn))
	verifAssert((res.Reason == Checkmate) == inCheck, "no legal move: checkmate exactly when the side to move is in check")
	if inCheck {
		verifAssert(res.Outcome == Loss(turn), "checkmate is a loss for the side to move")
	} else {
		verifAssert(res.Outcome == Draw && res.Reason == Stalemate, "not in check: stalemate, a draw")
	}
	verifAssert(b.Result() == res, "the board reports the adjudicated result")
	verifAssert(b.NoProgress() == np && b.FullMoves() == fm && b.Ply() == 1 && b.Turn() == turn, "a new board reports the clocks and side it was set up with")
}

// ---- C08: a forked board is independent of the original and vice versa ----

func harnessFork(k int, turn Color, mtype MoveType) {
	rlast := symRefPos()
	verifAssume(refLegalPos(rlast, turn))
	m := symMove()
	m.Type = mtype
	verifAssume(refGenForm(rlast, turn, m))
	verifAssume(refLegal(rlast, turn, m))
	b, _, _ := buildBoard(k, turn, rlast)
	N := toPosition(refSuccessor(rlast, turn, m))
	harnessNext, harnessNextTurn = N, turn.Opponent()
	harnessNewHash = newHashContract()
	probe := ZobristHash(nondetU64("probe"))
	verifReach("fork")

	f := b.Fork()
	b0 := snapshotFull(b, probe)
	verifAssert(sameFull(snapshotFull(f, probe), b0), "a fork reports exactly what the original reports")
	// play on the fork: the original must not notice
	ok := f.PushMove(m)
	verifAssert(ok, "legal move accepted on the fork")
	verifAssert(sameFull(snapshotFull(b, probe), b0), "playing on the fork does not change the original")
	f1 := snapshotFull(f, probe)
	// play and take back on the original: the fork must not notice
	ok2 := b.PushMove(m)
	verifAssert(ok2, "legal move accepted on the original")
	verifAssert(sameFull(snapshotFull(f, probe), f1), "playing on the original does not change the fork")
	// both detect the repetition against the common past identically
	verifAssert(b.Result() == f.Result(), "original and fork adjudicate the same continuation identically")
	b.PopMove()
	verifAssert(sameFull(snapshotFull(f, probe), f1), "taking back on the original does not change the fork")
	f.PopMove()
	b0.res = b.Result()
	verifAssert(sameFull(snapshotFull(b, probe), b0), "taking back on the fork does not change the original")
}

type fullSnap struct {
	s   boardSnap
	res Result
	cnt int
}

func snapshotFull(b *Board, probe ZobristHash) fullSnap {
	return fullSnap{s: snapBoard(b, 2, probe), res: b.Result(), cnt: b.repetitions[b.Hash()]}
}

func sameFull(a, b fullSnap) bool {
	x, y := a.s, b.s
	// a fork has its own current node object: compare the position by content
	same := samePos(x.pos, y.pos)
	x.pos, y.pos = nil, nil
	return verifAnd(verifAnd(same, sameSnap(x, y)), verifAnd(a.res == b.res, a.cnt == b.cnt))
}

func Harness_C08_Fork_W_Normal()  { harnessFork(2, White, Normal) }
func Harness_C08_Fork_B_Capture() { harnessFork(2, Black, Capture) }
func Harness_C08_Fork_W_CastleK() { harnessFork(2, White, KingSideCastle) }
func Harness_C08_Fork_B_Push()    { harnessFork(3, Black, Push) }
