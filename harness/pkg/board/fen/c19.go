package fen

import (
	"unicode"

	"github.com/herohde/morlock/pkg/board"
)

// C19 (FEN part): Decode is total; whatever it accepts is a well-formed position that
// re-encodes to a FEN which decodes to the same position.

func symRunes(n int) []rune {
	rs := make([]rune, n)
	for i := range rs {
		r := nondetRune("rune")
		verifAssume(r >= 0 && r <= 0x10FFFF && !(r >= 0xD800 && r <= 0xDFFF))
		// field separators and white space are placed by the harness, not drawn
		verifAssume(r != ' ' && r != '\t' && r != '\n' && r != '\v' && r != '\f' && r != '\r' && r != 0x85 && r != 0xA0 && r != 0x1680 && !(r >= 0x2000 && r <= 0x200a) && r != 0x2028 && r != 0x2029 && r != 0x202f && r != 0x205f && r != 0x3000)
		rs[i] = r
	}
	return rs
}

func samePosition(a, b *board.Position) bool {
	ok := a.Castling() == b.Castling()
	ea, ha := a.EnPassant()
	eb, hb := b.EnPassant()
	ok = verifAnd(ok, ea == eb && ha == hb)
	for c := board.ZeroColor; c < board.NumColors; c++ {
		for p := board.ZeroPiece; p < board.NumPieces; p++ {
			ok = verifAnd(ok, a.Piece(c, p) == b.Piece(c, p))
		}
	}
	return ok
}

// wellFormed: the views of the position agree and every piece stands on the board.
func wellFormed(p *board.Position) bool {
	var all, clash board.Bitboard
	ok := true
	for c := board.ZeroColor; c < board.NumColors; c++ {
		var side board.Bitboard
		for k := board.ZeroPiece; k < board.NumPieces; k++ {
			clash |= all & p.Piece(c, k)
			all |= p.Piece(c, k)
			side |= p.Piece(c, k)
		}
		ok = verifAnd(ok, side == p.Color(c))
	}
	ok = verifAnd(ok, clash == 0)
	ok = verifAnd(ok, all == p.All())
	ok = verifAnd(ok, p.Rotated() == board.NewRotatedBitboard(all))
	return ok
}

func checkDecoded(fen string) {
	pos, turn, np, fm, err := Decode(fen) // must not panic
	if err != nil {
		return
	}
	verifReach("accepted")
	verifAssert(pos != nil, "an accepted FEN yields a position")
	if pos == nil {
		return
	}
	verifAssert(wellFormed(pos), "an accepted FEN yields a well-formed position (all views agree)")
	verifAssert(turn <= board.Black && np >= 0 && fm >= 0, "an accepted FEN yields a side to move and non-negative clocks")
	again := Encode(pos, turn, np, fm)
	pos2, turn2, np2, fm2, err2 := Decode(again)
	verifAssert(err2 == nil && pos2 != nil, "the re-encoded FEN of an accepted FEN is accepted")
	if err2 == nil && pos2 != nil {
		verifAssert(samePosition(pos, pos2) && turn == turn2 && np == np2 && fm == fm2, "an accepted FEN re-encodes to a FEN that decodes to the same position")
	}
}

// board field: n arbitrary runes
func harnessDecodeBoard(maxLen int) {
	n := int(verifSplit(uint64(nondetU8("len")), 0, uint64(maxLen)))
	rs := symRunes(n)
	verifReach("decode-board")
	checkDecoded(string(rs) + " w - - 0 1")
}

func Harness_C19_DecodeBoard3() { harnessDecodeBoard(3) }
func Harness_C19_DecodeBoard5() { harnessDecodeBoard(5) }

// near-valid: a valid board with up to two runes replaced by arbitrary runes
func harnessDecodeSplice(k int) {
	base := []rune("r3k2r/8/8/8/8/8/8/R3K2R")
	// one representative of every kind of position (piece, run length inside a rank, rank
	// separator, whole-rank run length, first rune); a run over all 23 positions did not finish
	// within 40 minutes and is not claimed
	repr := []int{0, 1, 5, 6, 19}
	for j := 0; j < k; j++ {
		i := repr[int(verifSplit(uint64(nondetU8("pos")), 0, uint64(len(repr)-1)))]
		base[i] = symRunes(1)[0]
	}
	verifReach("decode-splice")
	checkDecoded(string(base) + " b KQkq - 12 34")
}

func Harness_C19_DecodeSplice1() { harnessDecodeSplice(1) }
func Harness_C19_DecodeSplice2() { harnessDecodeSplice(2) }

// the other fields: side (<=2 runes), castling (<=4), e.p. (<=3), clocks (<=3 runes each)
func Harness_C19_DecodeFields() {
	which := verifSplit(uint64(nondetU8("field")), 0, 4)
	side, castling, ep, np, fm := "w", "KQkq", "-", "0", "1"
	switch which {
	case 0:
		side = string(symRunes(int(verifSplit(uint64(nondetU8("len")), 0, 2))))
	case 1:
		castling = string(symRunes(int(verifSplit(uint64(nondetU8("len")), 0, 4))))
	case 2:
		ep = string(symRunes(int(verifSplit(uint64(nondetU8("len")), 0, 3))))
	case 3:
		np = string(symRunes(int(verifSplit(uint64(nondetU8("len")), 0, 3))))
	default:
		fm = string(symRunes(int(verifSplit(uint64(nondetU8("len")), 0, 3))))
	}
	verifReach("decode-fields")
	checkDecoded("r3k2r/8/8/8/8/8/8/R3K2R " + side + " " + castling + " " + ep + " " + np + " " + fm)
}

// board fields made of (unicode) digits and piece letters only: the near-valid family in
// which run lengths and placements interact (3 or 4 runes, every digit/letter pattern)
func harnessDecodeClasses(n int) {
	pattern := verifSplit(uint64(nondetU8("pattern")), 0, uint64(1<<uint(n))-1)
	harnessDecodePattern(n, pattern)
}

// the pattern (run length, piece, run length): the one in which a run length that leaves the
// board is followed by a placement and the final count can still come out right
func Harness_C19_DecodeDigitPieceDigit() { harnessDecodePattern(3, 2) }

func harnessDecodePattern(n int, pattern uint64) {
	rs := symRunes(n)
	for i := 0; i < n; i++ {
		_, _, isPiece := parsePiece(rs[i])
		if pattern&(1<<uint(i)) != 0 {
			verifAssume(isPiece)
		} else {
			verifAssume(unicode.IsDigit(rs[i]))
		}
	}
	verifReach("decode-classes")
	checkDecoded(string(rs) + " w - - 0 1")
}

func Harness_C19_DecodeClasses3() { harnessDecodeClasses(3) }
func Harness_C19_DecodeClasses4() { harnessDecodeClasses(4) }

func Harness_C19_DecodeBoard2() { harnessDecodeBoard(2) }
