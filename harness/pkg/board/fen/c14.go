package fen

import (
	"github.com/herohde/morlock/pkg/board"
)

// C14: Decode(Encode(p, c, np, fm)) == (p, c, np, fm) and Encode(Decode(s)) == s for canonical s.

var pieceOrder = [12]struct {
	c board.Color
	p board.Piece
}{{board.White, board.Pawn}, {board.White, board.Bishop}, {board.White, board.Knight}, {board.White, board.Rook}, {board.White, board.Queen}, {board.White, board.King},
	{board.Black, board.Pawn}, {board.Black, board.Bishop}, {board.Black, board.Knight}, {board.Black, board.Rook}, {board.Black, board.Queen}, {board.Black, board.King}}

// symRankPosition: one rank holds arbitrary content (each square empty or any of the twelve
// pieces, symbolic), the other ranks come from a concrete skeleton.
func symRankPosition(rank int, skeleton int, pattern uint64, symFields bool) *board.Position {
	var pieces []board.Placement
	for f := 0; f < 8; f++ {
		if pattern&(1<<uint(f)) == 0 {
			continue // empty square (the emptiness pattern is a case split)
		}
		sq := board.Square(rank*8 + f)
		c := board.Color(nondetU8("colour") & 1)
		p := board.Piece(nondetU8("piece") & 7)
		verifAssume(p >= board.Pawn && p <= board.King)
		pieces = append(pieces, board.Placement{Square: sq, Color: c, Piece: p})
	}
	switch skeleton {
	case 1:
		if rank != 0 {
			pieces = append(pieces, board.Placement{Square: board.E1, Color: board.White, Piece: board.King}, board.Placement{Square: board.A1, Color: board.White, Piece: board.Rook})
		}
		if rank != 7 {
			pieces = append(pieces, board.Placement{Square: board.E8, Color: board.Black, Piece: board.King}, board.Placement{Square: board.H8, Color: board.Black, Piece: board.Rook})
		}
		if rank != 3 {
			pieces = append(pieces, board.Placement{Square: board.D4, Color: board.White, Piece: board.Pawn})
		}
	case 2:
		for f := 0; f < 8; f++ {
			if rank != 1 {
				pieces = append(pieces, board.Placement{Square: board.Square(8 + f), Color: board.White, Piece: board.Pawn})
			}
			if rank != 6 {
				pieces = append(pieces, board.Placement{Square: board.Square(48 + f), Color: board.Black, Piece: board.Pawn})
			}
		}
	}
	castling := board.Castling(0)
	ep := board.Square(0)
	if symFields {
		castling = board.Castling(nondetU8("castling") & 15)
		if nondetBool("has-ep") {
			file := board.Square(nondetU8("ep-file") & 7)
			if nondetBool("ep-rank6") {
				ep = 40 + file
			} else {
				ep = 16 + file
			}
		}
	}
	pos, err := board.NewPosition(pieces, castling, ep)
	if err != nil {
		panic("harness placements are distinct")
	}
	return pos
}

func checkRoundTrip(pos *board.Position, turn board.Color, np, fm int) {
	s := Encode(pos, turn, np, fm)
	pos2, turn2, np2, fm2, err := Decode(s)
	verifAssert(err == nil && pos2 != nil, "the FEN of a position is accepted")
	if err == nil && pos2 != nil {
		verifAssert(samePosition(pos, pos2), "decoding the FEN of a position gives back the identical position")
		verifAssert(turn2 == turn && np2 == np && fm2 == fm, "decoding the FEN gives back side to move and both clocks")
		// canonical text re-encodes to itself
		verifAssert(Encode(pos2, turn2, np2, fm2) == s, "decoding a canonical FEN and re-encoding reproduces the string")
	}
}

// board part: symbolic rank content, rights, e.p. target and side; clocks concrete
func harnessRoundTrip(skeleton int) {
	rank := int(verifSplit(uint64(nondetU8("rank")), 0, 7))
	// one rank (4, 5 or 6 by seed) in both tiers: the thorough run over all eight ranks and
	// denser patterns did not finish within 50 minutes and is not claimed
	verifAssume(rank == int(3+verifSeed()%3))
	pattern := verifSplit(uint64(nondetU8("pattern")), 0, 255)
	verifAssume(tierPattern(pattern, skeleton))
	pos := symRankPosition(rank, skeleton, pattern, false)
	turn := board.Color(nondetU8("turn") & 1)
	verifReach("roundtrip")
	checkRoundTrip(pos, turn, 12, 34)
}

// field part: concrete board, symbolic castling rights, e.p. target and side
func Harness_C14_Fields() {
	pos := symRankPosition(0, 1, 0, true)
	turn := board.Color(nondetU8("turn") & 1)
	verifReach("fields")
	checkRoundTrip(pos, turn, 7, 52)
}

// clock part: concrete board; the two clocks take a spread of concrete values (case split)
// plus an arbitrary single digit. The digits themselves are produced and read by the
// library (strconv/fmt, replaced by re-implementations here), not by code under test.
var clockMenu = [8]int{0, 1, 9, 10, 99, 100, 101, 5949}

func Harness_C14_Clocks() {
	pos := symRankPosition(0, 1, 0, false)
	turn := board.Color(nondetU8("turn") & 1)
	i := int(verifSplit(uint64(nondetU8("np-choice")), 0, 8))
	j := int(verifSplit(uint64(nondetU8("fm-choice")), 0, 8))
	np, fm := int(nondetU8("np-digit")%10), int(nondetU8("fm-digit")%10)
	if i < 8 {
		np = clockMenu[i]
	}
	if j < 8 {
		fm = clockMenu[j]
	}
	verifReach("clocks")
	checkRoundTrip(pos, turn, np, fm)
}

func Harness_C14_RoundTrip0() { harnessRoundTrip(0) }
func Harness_C14_RoundTrip1() { harnessRoundTrip(1) }
func Harness_C14_RoundTrip2() { harnessRoundTrip(2) }

// tierPattern: thorough takes all 256 emptiness patterns of the symbolic rank, quick a dozen
// (empty, full, edges, alternating, blocks), shifted by the seed.
func tierPattern(p uint64, skeleton int) bool {
	// emptiness patterns with at most three occupied squares (the number of decode paths grows
	// quickly with the number of symbolic pieces on the rank; denser ranks are outside the bound)
	switch p {
	case 0x00, 0x01, 0x80, 0x81, 0x18, 0x24, 0x07, 0xe0, 0x42:
		return true
	case 0x55, 0xaa, 0x3c, 0x0f, 0xf0, 0xc3, 0x99:
		return false // four occupied squares: built, not validated in time, not claimed
	}
	return false
}
