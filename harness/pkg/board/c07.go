package board

// C07: incremental hash == hash from scratch, for an arbitrary table.

// symZobrist: every table word is a free variable; the only structure kept is what
// NewZobristTable guarantees for every seed: e.p. words exist only on ranks 3 and 6
// (all others are zero), and index 0 of the piece dimension is never written.
func symZobrist() *ZobristTable {
	zt := &ZobristTable{}
	for c := ZeroColor; c < NumColors; c++ {
		for p := ZeroPiece; p < NumPieces; p++ {
			for sq := ZeroSquare; sq < NumSquares; sq++ {
				zt.pieces[c][p][sq] = ZobristHash(nondetU64("z.piece"))
			}
		}
		zt.turn[c] = ZobristHash(nondetU64("z.turn"))
	}
	for i := ZeroCastling; i < NumCastling; i++ {
		zt.castling[i] = ZobristHash(nondetU64("z.castling"))
	}
	for sq := ZeroSquare; sq < NumSquares; sq++ {
		if sq.Rank() == Rank3 || sq.Rank() == Rank6 {
			zt.enpassant[sq] = ZobristHash(nondetU64("z.ep"))
		}
	}
	return zt
}

func harnessHashStep(turn Color, mtype MoveType) {
	from := verifSplit(uint64(nondetU8("from")), 0, 63)
	verifAssume(tierSquare(from))
	zt := symZobrist()
	r := symRefPos()
	m := symMove()
	m.Type = mtype
	m.From = Square(from)
	m.To = Square(verifSplit(uint64(m.To), 0, 63))
	// cheap geometric pre-filter on the two constants (implied by GENFORM; prunes tasks early)
	verifAssume(refGeomPossible(turn, mtype, int(m.From), int(m.To)))
	verifAssume(refLegalPos(r, turn))
	verifAssume(refGenForm(r, turn, m))
	p := toPosition(r)
	// the successor position as the rules prescribe it (Position.Move is tied to it by C02)
	next := toPosition(refSuccessor(r, turn, m))
	verifReach("hash-step")
	h := zt.Hash(p, turn)
	verifAssert(zt.Move(h, p, m) == zt.Hash(next, turn.Opponent()), "incremental hash equals the hash from scratch of the position reached")
}

func Harness_C07_W_Normal()   { harnessHashStep(White, Normal) }
func Harness_C07_W_Capture()  { harnessHashStep(White, Capture) }
func Harness_C07_W_Push()     { harnessHashStep(White, Push) }
func Harness_C07_W_Jump()     { harnessHashStep(White, Jump) }
func Harness_C07_W_EP()       { harnessHashStep(White, EnPassant) }
func Harness_C07_W_Promo()    { harnessHashStep(White, Promotion) }
func Harness_C07_W_CapPromo() { harnessHashStep(White, CapturePromotion) }
func Harness_C07_W_CastleK()  { harnessHashStep(White, KingSideCastle) }
func Harness_C07_W_CastleQ()  { harnessHashStep(White, QueenSideCastle) }
func Harness_C07_B_Normal()   { harnessHashStep(Black, Normal) }
func Harness_C07_B_Capture()  { harnessHashStep(Black, Capture) }
func Harness_C07_B_Push()     { harnessHashStep(Black, Push) }
func Harness_C07_B_Jump()     { harnessHashStep(Black, Jump) }
func Harness_C07_B_EP()       { harnessHashStep(Black, EnPassant) }
func Harness_C07_B_Promo()    { harnessHashStep(Black, Promotion) }
func Harness_C07_B_CapPromo() { harnessHashStep(Black, CapturePromotion) }
func Harness_C07_B_CastleK()  { harnessHashStep(Black, KingSideCastle) }
func Harness_C07_B_CastleQ()  { harnessHashStep(Black, QueenSideCastle) }

// Sensitivity: two positions that differ in exactly one component differ in hash by the
// XOR of the two table words of that component (so they collide only if two table words
// coincide).
func Harness_C07_Sensitivity() {
	zt := symZobrist()
	r := symRefPos()
	verifAssume(refDisjoint(r))
	verifAssume(r.castling <= 15 && r.ep <= 63)
	turn := Color(nondetU8("turn"))
	verifAssume(turn <= Black)
	p := toPosition(r)
	h := zt.Hash(p, turn)
	verifReach("sensitivity")

	// side to move
	verifAssert(h^zt.Hash(p, turn.Opponent()) == zt.turn[White]^zt.turn[Black], "side to move changes the hash by turn[w]^turn[b]")

	// castling rights
	c2 := nondetU8("castling2")
	verifAssume(c2 <= 15)
	q := *p
	q.castling = Castling(c2)
	verifAssert(h^zt.Hash(&q, turn) == zt.castling[r.castling]^zt.castling[c2], "castling rights change the hash by the XOR of their two table words")

	// en-passant target (absent, or on rank 3/6)
	e1, e2 := r.ep, int(nondetU8("ep2"))
	verifAssume(e2 <= 63)
	q2 := *p
	q2.enpassant = Square(e2)
	verifAssert(h^zt.Hash(&q2, turn) == zt.enpassant[e1]^zt.enpassant[e2], "e.p. target changes the hash by the XOR of the two e.p. table words")

}

// content of one square: removing the piece standing there changes the hash by exactly its
// table word (square, colour and kind are case-split: the table word is then one free variable)
func Harness_C07_SensitivityPiece() {
	sq := splitSquare("sq")
	c := Color(verifSplit(uint64(nondetU8("colour")), 0, 1))
	k := Piece(verifSplit(uint64(nondetU8("kind")), 1, 6))
	zt := symZobrist()
	r := symRefPos()
	verifAssume(refDisjoint(r))
	verifAssume(r.castling <= 15 && r.ep <= 63)
	verifAssume(r.pc[c][k]&refBit(int(sq)) != 0)
	turn := Color(nondetU8("turn"))
	verifAssume(turn <= Black)
	p := toPosition(r)
	h := zt.Hash(p, turn)
	verifReach("sensitivity-piece")
	q3 := *p
	q3.xor(sq, c, k)
	verifAssert(h^zt.Hash(&q3, turn) == zt.pieces[c][k][sq], "removing a piece changes the hash by exactly its table word")
}

// refGeomPossible: necessary condition on (from, to) for a move of the given kind by any piece.
func refGeomPossible(turn Color, t MoveType, from, to int) bool {
	if from == to {
		return false
	}
	df, dr := (to&7)-(from&7), (to>>3)-(from>>3)
	adf, adr := df, dr
	if adf < 0 {
		adf = -adf
	}
	if adr < 0 {
		adr = -adr
	}
	fwd := 1
	if turn == Black {
		fwd = -1
	}
	switch t {
	case Normal:
		return df == 0 || dr == 0 || adf == adr || (adf == 1 && adr == 2) || (adf == 2 && adr == 1)
	case Capture:
		return df == 0 || dr == 0 || adf == adr || (adf == 1 && adr == 2) || (adf == 2 && adr == 1)
	case Push, Promotion:
		return df == 0 && dr == fwd
	case Jump:
		return df == 0 && dr == 2*fwd
	case EnPassant, CapturePromotion:
		return adf == 1 && dr == fwd
	case KingSideCastle:
		return dr == 0 && df == -2
	case QueenSideCastle:
		return dr == 0 && df == 2
	}
	return false
}

// The structure symZobrist assumes is what NewZobristTable really builds: e.p. words exist
// exactly on ranks 3 and 6, every other word used by Hash is present, and all used words
// are pairwise distinct (so one changed component changes the hash). The real constructor
// and the real math/rand source are executed in the interpreter (concrete evaluation).
func harnessZobristStructure(seed int64) {
	zt := NewZobristTable(seed)
	verifReach("table")
	seen := map[ZobristHash]bool{}
	distinct := true
	add := func(h ZobristHash) {
		if seen[h] || h == 0 {
			distinct = false
		}
		seen[h] = true
	}
	for c := ZeroColor; c < NumColors; c++ {
		for p := ZeroPiece; p < NumPieces; p++ {
			for sq := ZeroSquare; sq < NumSquares; sq++ {
				add(zt.pieces[c][p][sq])
			}
		}
		add(zt.turn[c])
	}
	for i := ZeroCastling; i < NumCastling; i++ {
		add(zt.castling[i])
	}
	epOK := true
	for sq := ZeroSquare; sq < NumSquares; sq++ {
		onRank := sq.Rank() == Rank3 || sq.Rank() == Rank6
		if onRank {
			add(zt.enpassant[sq])
		} else if zt.enpassant[sq] != 0 {
			epOK = false
		}
	}
	verifAssert(epOK, "e.p. table words exist only on ranks 3 and 6")
	verifAssert(distinct, "all table words used by Hash are present and pairwise distinct (incl. the e.p. words of ranks 3 and 6)")
}

func Harness_C07_Table0() { harnessZobristStructure(0) }
func Harness_C07_Table1() { harnessZobristStructure(1) }
func Harness_C07_TableSeed() { harnessZobristStructure(int64(verifSeed()) + 2) }
