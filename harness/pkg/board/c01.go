package board

// C01: the generator. PseudoLegalMoves is a sequence of emit calls; the harness replaces
// emitMove/emitPromo by recorders and checks the target boards they are handed against the
// rules for every destination square (G1), checks the emit loops themselves on arbitrary
// boards (G2), and checks LegalMoves as the legality filter over the generated list (G3).

type emitCall struct {
	promo bool
	turn  Color
	t     MoveType
	piece Piece
	from  Square
	board Bitboard
}

var emitLog []emitCall

func recEmitMove(p *Position, turn Color, t MoveType, piece Piece, from Square, attackboard Bitboard, out *[]Move) {
	emitLog = append(emitLog, emitCall{turn: turn, t: t, piece: piece, from: from, board: attackboard})
}

func recEmitPromo(p *Position, turn Color, t MoveType, piece Piece, from Square, attackboard Bitboard, out *[]Move) {
	emitLog = append(emitLog, emitCall{promo: true, turn: turn, t: t, piece: piece, from: from, board: attackboard})
}

// moveOf: the move an emit call produces for destination `to` (promotion piece pc for promotions).
func moveOf(r *refPos, c emitCall, to int, pc Piece) Move {
	m := Move{Type: c.t, Piece: c.piece, From: c.from, To: Square(to)}
	if c.t == Capture || c.t == CapturePromotion {
		m.Capture = r.kindAt(c.turn.Opponent(), to)
	}
	if c.promo {
		m.Promotion = pc
	}
	return m
}

// harnessGenerator: side to move owns its king and one further piece of the given kind
// (NoPiece = bare king); the opponent's pieces, rights and e.p. target are arbitrary.
func harnessGenerator(turn Color, kind Piece) {
	r := symRefPos()
	ksq := int(nondetU8("ksq") & 63)
	psq := int(nondetU8("psq") & 63)
	for k := Pawn; k <= King; k++ {
		r.pc[turn][k] = 0
	}
	r.pc[turn][King] = refBit(ksq)
	if kind != NoPiece {
		verifAssume(psq != ksq)
		r.pc[turn][kind] = refBit(psq)
	}
	verifAssume(refLegalPos(r, turn))
	p := toPosition(r)
	emitLog = nil
	verifReach("generator")
	p.PseudoLegalMoves(turn)
	calls := emitLog

	// soundness, metadata and exactness of every target board, for every destination square
	to := int(nondetU8("to") & 63)
	pc := Piece(nondetU8("promo") & 7)
	for _, c := range calls {
		in := uint64(c.board)&refBit(to) != 0
		m := moveOf(r, c, to, Queen)
		verifAssert(c.turn == turn, "emit call for the side to move")
		verifAssert(c.promo == (c.t == Promotion || c.t == CapturePromotion), "promotions are emitted through the promotion emitter only")
		verifAssert(in == refGenForm(r, turn, m), "every target board holds exactly the destinations the rules allow for that piece and move kind")
	}
	// completeness: every pseudo-legal move of the rules is covered by some emit call
	mm := symMove()
	mm.To = Square(to)
	mm.Promotion = pc
	if refGenForm(r, turn, mm) {
		covered := false
		n := 0
		for _, c := range calls {
			hit := c.t == mm.Type && c.from == mm.From && c.piece == mm.Piece && uint64(c.board)&refBit(to) != 0
			covered = verifOr(covered, hit)
			n += int(verifIte(hit, 1, 0))
		}
		verifAssert(covered, "every pseudo-legal move of the rules is generated (castling, en passant and all promotions included)")
		verifAssert(n == 1, "each move is generated once")
	}
}

func Harness_C01_Gen_W_Bare()   { harnessGenerator(White, NoPiece) }
func Harness_C01_Gen_W_Pawn()   { harnessGenerator(White, Pawn) }
func Harness_C01_Gen_W_Knight() { harnessGenerator(White, Knight) }
func Harness_C01_Gen_W_Bishop() { harnessGenerator(White, Bishop) }
func Harness_C01_Gen_W_Rook()   { harnessGenerator(White, Rook) }
func Harness_C01_Gen_W_Queen()  { harnessGenerator(White, Queen) }
func Harness_C01_Gen_B_Bare()   { harnessGenerator(Black, NoPiece) }
func Harness_C01_Gen_B_Pawn()   { harnessGenerator(Black, Pawn) }
func Harness_C01_Gen_B_Knight() { harnessGenerator(Black, Knight) }
func Harness_C01_Gen_B_Bishop() { harnessGenerator(Black, Bishop) }
func Harness_C01_Gen_B_Rook()   { harnessGenerator(Black, Rook) }
func Harness_C01_Gen_B_Queen()  { harnessGenerator(Black, Queen) }

// G2: the emit loops on an arbitrary position and an arbitrary target board with at most
// two (quick) / three (thorough) destinations.
func harnessEmit(promo bool) {
	r := symRefPos()
	verifAssume(refDisjoint(r))
	p := toPosition(r)
	turn := Color(nondetU8("turn") & 1)
	t := MoveType(nondetU8("type") & 15)
	verifAssume(t >= Normal && t <= CapturePromotion)
	piece := Piece(nondetU8("piece") & 7)
	from := Square(nondetU8("from") & 63)
	maxBits := 2
	if !verifQuick() {
		maxBits = 3
	}
	// the target board: n <= maxBits destinations on ascending squares
	n := int(verifSplit(uint64(nondetU8("n")), 0, uint64(maxBits)))
	var sq [3]int
	var board uint64
	prev := -1
	for i := 0; i < n; i++ {
		sq[i] = int(nondetU8("dest") & 63)
		verifAssume(sq[i] > prev)
		prev = sq[i]
		board |= refBit(sq[i])
	}
	verifReach("emit")
	var out []Move
	if promo {
		p.emitPromo(turn, t, piece, from, Bitboard(board), &out)
		verifAssert(len(out) == 4*n, "four promotion moves per destination")
		for i := 0; i < n && 4*i+3 < len(out); i++ {
			want := NoPiece
			if t == CapturePromotion {
				want = r.kindAt(turn.Opponent(), sq[i])
			}
			for j, pc := range [4]Piece{Queen, Rook, Knight, Bishop} {
				m := out[4*i+j]
				verifAssert(m == Move{Type: t, Piece: piece, From: from, To: Square(sq[i]), Capture: want, Promotion: pc}, "promotion emitter: one move per destination and promotion piece with the captured piece found on the destination")
			}
		}
	} else {
		p.emitMove(turn, t, piece, from, Bitboard(board), &out)
		verifAssert(len(out) == n, "one move per destination")
		for i := 0; i < n && i < len(out); i++ {
			want := NoPiece
			if t == Capture {
				want = r.kindAt(turn.Opponent(), sq[i])
			}
			verifAssert(out[i] == Move{Type: t, Piece: piece, From: from, To: Square(sq[i]), Capture: want}, "move emitter: one move per destination with the captured piece found on the destination")
		}
	}
}

func Harness_C01_EmitMove()  { harnessEmit(false) }
func Harness_C01_EmitPromo() { harnessEmit(true) }

// G3: LegalMoves keeps exactly the generated moves that Position.Move accepts, in order.
var specList []Move

func specPseudoLegal(p *Position, turn Color) []Move { return specList }

var specLegalFlags []bool

func specMoveFlag(p *Position, m Move) (*Position, bool) {
	for i, x := range specList {
		if x == m {
			return p, specLegalFlags[i]
		}
	}
	return nil, false
}

func Harness_C01_LegalFilter() {
	n := int(verifSplit(uint64(nondetU8("n")), 0, 4))
	specList, specLegalFlags = nil, nil
	for i := 0; i < n; i++ {
		m := symMove()
		for _, x := range specList {
			verifAssume(x != m)
		}
		specList = append(specList, m)
		specLegalFlags = append(specLegalFlags, nondetBool("legal"))
	}
	p := &Position{}
	verifReach("filter")
	got := p.LegalMoves(White)
	k := 0
	for i := 0; i < n; i++ {
		if specLegalFlags[i] {
			verifAssert(k < len(got) && got[k] == specList[i], "LegalMoves keeps every generated move that is legal, in order")
			k++
		}
	}
	verifAssert(len(got) == k, "LegalMoves keeps nothing else")
}
