package board

// C06-1: attack tables and rotated-board bookkeeping against ray tracing, for
// every square (case split) and every 64-bit occupancy (symbolic).

func splitSquare(name string) Square {
	return Square(verifSplit(uint64(nondetU8(name)), 0, 63))
}

func harnessOfficer(kind Piece, tag string) {
	sq := splitSquare("sq")
	occ := nondetU64("occ")
	verifReach(tag)
	got := Attackboard(NewRotatedBitboard(Bitboard(occ)), sq, kind)
	want := refAttacks(kind, int(sq), occ)
	verifAssert(uint64(got) == want, tag+" attack set equals the ray-traced reference")
}

func Harness_C06_Rook()   { harnessOfficer(Rook, "rook") }
func Harness_C06_Bishop() { harnessOfficer(Bishop, "bishop") }
func Harness_C06_Queen()  { harnessOfficer(Queen, "queen") }
func Harness_C06_Knight() { harnessOfficer(Knight, "knight") }
func Harness_C06_King()   { harnessOfficer(King, "king") }

func Harness_C06_PawnCaptures() {
	pawns := nondetU64("pawns")
	c := Color(nondetU8("colour"))
	verifAssume(c <= Black)
	verifReach("pawncap")
	verifAssert(uint64(PawnCaptureboard(c, Bitboard(pawns))) == refPawnCaptures(c, pawns), "pawn capture set equals reference")
}

// The four rotated views stay in lock-step under Xor.
func Harness_C06_RotatedXor() {
	sq := splitSquare("sq")
	occ := nondetU64("occ")
	verifReach("xor")
	r := NewRotatedBitboard(Bitboard(occ))
	verifAssert(uint64(r.Mask()) == occ, "normal view equals the occupancy")
	x := r.Xor(sq)
	y := NewRotatedBitboard(Bitboard(occ ^ refBit(int(sq))))
	verifAssert(x == y, "Xor keeps all four rotated views consistent")
}

func Harness_C06_TwinRook() {
	sq := splitSquare("sq")
	occ := nondetU64("occ")
	verifReach("twin")
	got := Attackboard(NewRotatedBitboard(Bitboard(occ)), sq, Rook)
	verifAssert(uint64(got) != refAttacks(Rook, int(sq), occ), "twin: negated (must fail)")
}

func Harness_Debug_Rot() {
	occ := nondetU64("occ")
	verifReach("dbg")
	r := NewRotatedBitboard(Bitboard(occ))
	verifAssert(uint64(r.Mask()) == occ, "normal view equals the occupancy")
}
