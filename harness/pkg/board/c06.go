package board

// C06-1: attack tables and rotated-board bookkeeping against ray tracing, for
// every square (case split) and every 64-bit occupancy (symbolic).

func splitSquare(name string) Square {
	return Square(verifSplit(uint64(nondetU8(name)), 0, 63))
}

func harnessOfficer(kind Piece, tag string) {
	sq := splitSquare("sq")
	occ := nondetU64("occ")
	verifReach(tag)
	got := Attackboard(NewRotatedBitboard(Bitboard(occ)), sq, kind)
	want := refAttacks(kind, int(sq), occ)
	verifAssert(uint64(got) == want, tag+" attack set equals the ray-traced reference")
}

func Harness_C06_Rook()   { harnessOfficer(Rook, "rook") }
func Harness_C06_Bishop() { harnessOfficer(Bishop, "bishop") }
func Harness_C06_Queen()  { harnessOfficer(Queen, "queen") }
func Harness_C06_Knight() { harnessOfficer(Knight, "knight") }
func Harness_C06_King()   { harnessOfficer(King, "king") }

func Harness_C06_PawnCaptures() {
	pawns := nondetU64("pawns")
	c := Color(nondetU8("colour"))
	verifAssume(c <= Black)
	verifReach("pawncap")
	verifAssert(uint64(PawnCaptureboard(c, Bitboard(pawns))) == refPawnCaptures(c, pawns), "pawn capture set equals reference")
}

// The four rotated views stay in lock-step under Xor.
func Harness_C06_RotatedXor() {
	sq := splitSquare("sq")
	occ := nondetU64("occ")
	verifReach("xor")
	r := NewRotatedBitboard(Bitboard(occ))
	verifAssert(uint64(r.Mask()) == occ, "normal view equals the occupancy")
	x := r.Xor(sq)
	y := NewRotatedBitboard(Bitboard(occ ^ refBit(int(sq))))
	verifAssert(x == y, "Xor keeps all four rotated views consistent")
}

func Harness_C06_TwinRook() {
	sq := splitSquare("sq")
	occ := nondetU64("occ")
	verifReach("twin")
	got := Attackboard(NewRotatedBitboard(Bitboard(occ)), sq, Rook)
	verifAssert(uint64(got) != refAttacks(Rook, int(sq), occ), "twin: negated (must fail)")
}

func Harness_Debug_Rot() {
	occ := nondetU64("occ")
	verifReach("dbg")
	r := NewRotatedBitboard(Bitboard(occ))
	verifAssert(uint64(r.Mask()) == occ, "normal view equals the occupancy")
}

// C06-2: the derived attack queries on arbitrary positions, against the forward attack map
// (every piece of the attacking colour traced from its own square).
func Harness_C06_IsAttacked() {
	sq := splitSquare("sq")
	verifAssume(tierSquare(uint64(sq)))
	r := symRefPos()
	verifAssume(refDisjoint(r))
	c := Color(nondetU8("colour") & 1)
	p := toPosition(r)
	verifReach("isattacked")
	want := refAttackMap(r, c.Opponent())&refBit(int(sq)) != 0
	verifAssert(p.IsAttacked(c, sq) == want, "IsAttacked: the square is attacked by the opposing colour exactly when some piece of that colour reaches it by its movement rule")
	verifAssert(p.IsDefended(c.Opponent(), sq) == want, "IsDefended is the same relation seen from the other colour")
	verifAssert(p.IsAttacked(c, sq) == refAttacked(r, c.Opponent(), int(sq)), "the target-side formulation of the attack relation agrees")
}

func Harness_C06_IsChecked() {
	c := Color(verifSplit(uint64(nondetU8("colour")), 0, 1))
	ksq := splitSquare("ksq")
	verifAssume(tierSquare(uint64(ksq)))
	r := symRefPos()
	r.pc[c][King] = refBit(int(ksq))
	verifAssume(refDisjoint(r))
	p := toPosition(r)
	verifReach("ischecked")
	verifAssert(p.IsChecked(c) == (refAttackMap(r, c.Opponent())&refBit(int(ksq)) != 0), "IsChecked: the king's square is attacked by the opposing colour")
	verifAssert(p.KingSquare(c) == ksq, "KingSquare")
}
