package board

// C19 (board package part): ParseMove, ParseSquareStr, ParseSquare, ParsePiece are total and
// accept exactly well-formed text.

// symString: a string of n arbitrary valid runes (every string decodes to such a rune sequence
// under []rune / range, invalid bytes becoming U+FFFD, which is included).
func symRunes(n int) []rune {
	rs := make([]rune, n)
	for i := range rs {
		r := nondetRune("rune")
		verifAssume(r >= 0 && r <= 0x10FFFF && !(r >= 0xD800 && r <= 0xDFFF))
		rs[i] = r
	}
	return rs
}

func refFileOf(r rune) (int, bool) {
	if r >= 'a' && r <= 'h' {
		return 7 - int(r-'a'), true // file a is index 7, file h index 0
	}
	if r >= 'A' && r <= 'H' {
		return 7 - int(r-'A'), true
	}
	return 0, false
}

func refRankOf(r rune) (int, bool) {
	if r >= '1' && r <= '8' {
		return int(r - '1'), true
	}
	return 0, false
}

func refSquareOf(f, r rune) (int, bool) {
	fi, ok1 := refFileOf(f)
	ri, ok2 := refRankOf(r)
	return ri*8 + fi, ok1 && ok2
}

func refPromoOf(r rune) (Piece, bool) {
	switch r {
	case 'q', 'Q':
		return Queen, true
	case 'r', 'R':
		return Rook, true
	case 'n', 'N':
		return Knight, true
	case 'b', 'B':
		return Bishop, true
	}
	return NoPiece, false
}

func Harness_C19_ParseMove() {
	n := int(verifSplit(uint64(nondetU8("len")), 0, 6))
	rs := symRunes(n)
	s := string(rs)
	verifReach("parsemove")
	m, err := ParseMove(s) // must not panic
	accept := false
	var from, to int
	promo := NoPiece
	if n == 4 || n == 5 {
		f, ok1 := refSquareOf(rs[0], rs[1])
		t, ok2 := refSquareOf(rs[2], rs[3])
		from, to = f, t
		accept = ok1 && ok2
		if n == 5 {
			p, ok3 := refPromoOf(rs[4])
			promo = p
			accept = accept && ok3
		}
	}
	verifAssert((err == nil) == accept, "ParseMove accepts exactly [a-h][1-8][a-h][1-8][qrnb]? (either case)")
	if err == nil {
		verifAssert(int(m.From) == from && int(m.To) == to && m.Promotion == promo, "ParseMove yields the squares and promotion piece the text denotes")
		verifAssert(m.From <= 63 && m.To <= 63, "parsed squares are on the board")
	} else {
		verifAssert(m == Move{}, "a rejected move text yields the zero move")
	}
}

func Harness_C19_ParseSquareStr() {
	n := int(verifSplit(uint64(nondetU8("len")), 0, 4))
	rs := symRunes(n)
	verifReach("parsesquare")
	sq, err := ParseSquareStr(string(rs))
	accept := false
	want := 0
	if n == 2 {
		want, accept = refSquareOf(rs[0], rs[1])
	}
	verifAssert((err == nil) == accept, "ParseSquareStr accepts exactly a file letter followed by a rank digit")
	if err == nil {
		verifAssert(int(sq) == want && sq.IsValid(), "ParseSquareStr yields the square the text denotes")
	}
}

func Harness_C19_ParsePiece() {
	r := symRunes(1)[0]
	verifReach("parsepiece")
	p, ok := ParsePiece(r)
	want := NoPiece
	switch r {
	case 'p', 'P':
		want = Pawn
	case 'b', 'B':
		want = Bishop
	case 'n', 'N':
		want = Knight
	case 'r', 'R':
		want = Rook
	case 'q', 'Q':
		want = Queen
	case 'k', 'K':
		want = King
	}
	verifAssert(ok == (want != NoPiece) && p == want, "ParsePiece accepts exactly the six piece letters")
	verifAssert(!ok || p.IsValid(), "a parsed piece is a valid piece")
}

// Square / file / rank text round trip (used by the FEN codec and move printing)
func Harness_C19_SquareString() {
	sq := Square(nondetU8("sq") & 63)
	verifReach("squarestring")
	back, err := ParseSquareStr(sq.String())
	verifAssert(err == nil && back == sq, "a square's text parses back to the square")
}
