package board

// C01-1 / C02: one symbolic legal position, one symbolic pseudo-legal move.
// Position.Move must accept exactly the legal ones and produce the successor of the rules.

// tierSquare: the thorough tier takes all 64 values of a case-split square; the quick tier
// takes eight of them (king home squares, one square on each pawn start rank, one on each of ranks 1, 4, 5, 8 with its file rotated by VERIF_SEED).
func tierSquare(sq uint64) bool {
	if !verifQuick() {
		return true
	}
	// always: the king home squares and one square on each pawn start rank (castling,
	// double steps and promotions only exist there); rotated by the seed: corners and centre
	if sq == 3 || sq == 59 || sq == 12 || sq == 51 {
		return true
	}
	// one square on each of the ranks 1, 4, 5 and 8 (en passant captures only start on ranks 4
	// and 5), its file rotated by the seed
	r := verifSeed() % 8
	return sq == r || sq == 24+(4+r)%8 || sq == 32+(7+r)%8 || sq == 56+(7+r)%8
}

var refKingStep = [8]int{1, 9, 8, 7, -1, -9, -8, -7}

func harnessMove(turn Color, mtype MoveType, kingMove bool) {
	// case splits first (cheap path condition), then the symbolic position.
	// The mover's king square indexes the slider tables after the move, so it is
	// a constant in every task: for king moves From and To, otherwise the king's square.
	var ksq, to uint64
	castle := mtype == KingSideCastle || mtype == QueenSideCastle
	switch {
	case castle:
		ksq = 3
		if turn == Black {
			ksq = 59
		}
		to = ksq - 2
		if mtype == QueenSideCastle {
			to = ksq + 2
		}
	case kingMove:
		ksq = verifSplit(uint64(nondetU8("m.from")), 0, 63)
		verifAssume(tierSquare(ksq))
		dir := verifSplit(uint64(nondetU8("m.dir")), 0, 7)
		t := int(ksq) + refKingStep[dir]
		verifAssume(t >= 0 && t <= 63)
		df := (t & 7) - (int(ksq) & 7)
		verifAssume(df >= -1 && df <= 1)
		to = uint64(t)
	default:
		ksq = verifSplit(uint64(nondetU8("ksq")), 0, 63)
		verifAssume(tierSquare(ksq))
	}
	r := symRefPos()
	r.pc[turn][King] = refBit(int(ksq))
	m := symMove()
	m.Type = mtype
	if kingMove {
		m.From, m.To, m.Piece = Square(ksq), Square(to), King
	} else {
		verifAssume(m.Piece != King)
	}
	verifAssume(refLegalPos(r, turn))
	verifAssume(refGenForm(r, turn, m))
	p := toPosition(r)
	before := *p
	verifReach("move")

	next, ok := p.Move(m)
	want := refLegal(r, turn, m)
	verifAssert(ok == want, "Position.Move accepts exactly the legal moves")
	verifAssert(*p == before, "the position moved from is left untouched")
	if !ok {
		return
	}
	verifReach("moved")
	n := refSuccessor(r, turn, m)
	verifAssert(samePlacement(next, n), "piece placement after the move is the successor of the rules (all per-piece and per-colour sets)")
	verifAssert(next.rotated == NewRotatedBitboard(Bitboard(n.occ())), "occupancy and rotated views agree with the placement after the move")
	verifAssert(uint8(next.Castling()) == n.castling, "castling rights after the move")
	ep, has := next.EnPassant()
	verifAssert(int(ep) == n.ep && has == (n.ep != 0), "en-passant target only directly after a double step")
}

func Harness_C02_W_Normal()  { harnessMove(White, Normal, false) }
func Harness_C02_W_Capture() { harnessMove(White, Capture, false) }
func Harness_C02_W_Push()    { harnessMove(White, Push, false) }
func Harness_C02_W_Jump()    { harnessMove(White, Jump, false) }
func Harness_C02_W_EP()      { harnessMove(White, EnPassant, false) }
func Harness_C02_W_Promo()   { harnessMove(White, Promotion, false) }
func Harness_C02_W_CapPromo() { harnessMove(White, CapturePromotion, false) }
func Harness_C02_B_Normal()  { harnessMove(Black, Normal, false) }
func Harness_C02_B_Capture() { harnessMove(Black, Capture, false) }
func Harness_C02_B_Push()    { harnessMove(Black, Push, false) }
func Harness_C02_B_Jump()    { harnessMove(Black, Jump, false) }
func Harness_C02_B_EP()      { harnessMove(Black, EnPassant, false) }
func Harness_C02_B_Promo()   { harnessMove(Black, Promotion, false) }
func Harness_C02_B_CapPromo() { harnessMove(Black, CapturePromotion, false) }

func Harness_C02_W_KingNormal()  { harnessMove(White, Normal, true) }
func Harness_C02_W_KingCapture() { harnessMove(White, Capture, true) }
func Harness_C02_B_KingNormal()  { harnessMove(Black, Normal, true) }
func Harness_C02_B_KingCapture() { harnessMove(Black, Capture, true) }
func Harness_C02_W_CastleK()     { harnessMove(White, KingSideCastle, true) }
func Harness_C02_W_CastleQ()     { harnessMove(White, QueenSideCastle, true) }
func Harness_C02_B_CastleK()     { harnessMove(Black, KingSideCastle, true) }
func Harness_C02_B_CastleQ()     { harnessMove(Black, QueenSideCastle, true) }


