package board

// Reference model of chess geometry used by the harnesses. Plain square
// arithmetic (file = sq&7 with 0 = h-file, rank = sq>>3 with 0 = rank 1);
// no tables, no rotated boards, no morlock helpers.

var refRookDirs = [4][2]int{{1, 0}, {-1, 0}, {0, 1}, {0, -1}}
var refBishopDirs = [4][2]int{{1, 1}, {1, -1}, {-1, 1}, {-1, -1}}
var refKnightOffs = [8][2]int{{1, 2}, {2, 1}, {2, -1}, {1, -2}, {-1, -2}, {-2, -1}, {-2, 1}, {-1, 2}}
var refKingOffs = [8][2]int{{1, 0}, {1, 1}, {0, 1}, {-1, 1}, {-1, 0}, {-1, -1}, {0, -1}, {1, -1}}

func refBit(sq int) uint64 { return uint64(1) << uint(sq) }

func refOn(f, r int) bool { return f >= 0 && f <= 7 && r >= 0 && r <= 7 }

// refSlide: squares reached from sq along dirs, stopping at and including the first occupied square.
func refSlide(sq int, occ uint64, dirs [4][2]int) uint64 {
	var out uint64
	for _, d := range dirs {
		f, r := sq&7, sq>>3
		blocked := false
		for i := 0; i < 7; i++ {
			f += d[0]
			r += d[1]
			if !refOn(f, r) {
				break
			}
			b := refBit(r*8 + f)
			if !blocked {
				out |= b
			}
			if occ&b != 0 {
				blocked = true
			}
		}
	}
	return out
}

func refJump(sq int, offs [8][2]int) uint64 {
	var out uint64
	for _, d := range offs {
		f, r := (sq&7)+d[0], (sq>>3)+d[1]
		if refOn(f, r) {
			out |= refBit(r*8 + f)
		}
	}
	return out
}

// refAttacks: squares attacked by an officer of the given kind on sq with board occupancy occ.
func refAttacks(kind Piece, sq int, occ uint64) uint64 {
	switch kind {
	case King:
		return refJump(sq, refKingOffs)
	case Knight:
		return refJump(sq, refKnightOffs)
	case Rook:
		return refSlide(sq, occ, refRookDirs)
	case Bishop:
		return refSlide(sq, occ, refBishopDirs)
	case Queen:
		return refSlide(sq, occ, refRookDirs) | refSlide(sq, occ, refBishopDirs)
	}
	return 0
}

// refPawnCaptures: squares attacked by pawns of colour c standing on the set pawns.
// White pawns capture towards higher ranks; files wrap is cut at the board edge.
func refPawnCaptures(c Color, pawns uint64) uint64 {
	var out uint64
	for sq := 0; sq < 64; sq++ {
		if pawns&refBit(sq) == 0 {
			continue
		}
		f, r := sq&7, sq>>3
		dr := 1
		if c == Black {
			dr = -1
		}
		for _, df := range [2]int{-1, 1} {
			if refOn(f+df, r+dr) {
				out |= refBit((r+dr)*8 + f + df)
			}
		}
	}
	return out
}
