package board

// Reference model of chess geometry used by the harnesses. Plain square
// arithmetic (file = sq&7 with 0 = h-file, rank = sq>>3 with 0 = rank 1);
// no tables, no rotated boards, no morlock helpers.

var refRookDirs = [4][2]int{{1, 0}, {-1, 0}, {0, 1}, {0, -1}}
var refBishopDirs = [4][2]int{{1, 1}, {1, -1}, {-1, 1}, {-1, -1}}
var refKnightOffs = [8][2]int{{1, 2}, {2, 1}, {2, -1}, {1, -2}, {-1, -2}, {-2, -1}, {-2, 1}, {-1, 2}}
var refKingOffs = [8][2]int{{1, 0}, {1, 1}, {0, 1}, {-1, 1}, {-1, 0}, {-1, -1}, {0, -1}, {1, -1}}

func refBit(sq int) uint64 { return uint64(1) << uint(sq) }

func refOn(f, r int) bool { return f >= 0 && f <= 7 && r >= 0 && r <= 7 }

// refSlide: squares reached from sq along dirs, stopping at and including the first occupied square.
func refSlide(sq int, occ uint64, dirs [4][2]int) uint64 {
	var out uint64
	for _, d := range dirs {
		f, r := sq&7, sq>>3
		blocked := false
		for i := 0; i < 7; i++ {
			f += d[0]
			r += d[1]
			if !refOn(f, r) {
				break
			}
			b := refBit(r*8 + f)
			out |= verifIte(blocked, 0, b)
			blocked = verifOr(blocked, occ&b != 0)
		}
	}
	return out
}

func refJump(sq int, offs [8][2]int) uint64 {
	var out uint64
	for _, d := range offs {
		f, r := (sq&7)+d[0], (sq>>3)+d[1]
		if refOn(f, r) {
			out |= refBit(r*8 + f)
		}
	}
	return out
}

// refAttacks: squares attacked by an officer of the given kind on sq with board occupancy occ.
func refAttacks(kind Piece, sq int, occ uint64) uint64 {
	switch kind {
	case King:
		return refJump(sq, refKingOffs)
	case Knight:
		return refJump(sq, refKnightOffs)
	case Rook:
		return refSlide(sq, occ, refRookDirs)
	case Bishop:
		return refSlide(sq, occ, refBishopDirs)
	case Queen:
		return refSlide(sq, occ, refRookDirs) | refSlide(sq, occ, refBishopDirs)
	}
	return 0
}

// refPawnCaptures: squares attacked by pawns of colour c standing on the set pawns.
// White pawns capture towards higher ranks; files wrap is cut at the board edge.
func refPawnCaptures(c Color, pawns uint64) uint64 {
	var out uint64
	for sq := 0; sq < 64; sq++ {
		f, r := sq&7, sq>>3
		var w, b uint64 // targets of a white / black pawn on sq
		for _, df := range [2]int{-1, 1} {
			if refOn(f+df, r+1) {
				w |= refBit((r+1)*8 + f + df)
			}
			if refOn(f+df, r-1) {
				b |= refBit((r-1)*8 + f + df)
			}
		}
		out |= verifIte(pawns&refBit(sq) != 0, verifIte(c == White, w, b), 0)
	}
	return out
}

// ---------------------------------------------------------------------------
// Reference position: twelve piece sets, castling rights, e.p. target (0 = none).

type refPos struct {
	pc       [2][7]uint64 // [colour][kind], index 0 unused
	castling uint8        // bit0 WK, bit1 WQ, bit2 BK, bit3 BQ
	ep       int          // en-passant target square, 0 = none
}

func (r *refPos) side(c Color) uint64 {
	return r.pc[c][Pawn] | r.pc[c][Bishop] | r.pc[c][Knight] | r.pc[c][Rook] | r.pc[c][Queen] | r.pc[c][King]
}

func (r *refPos) occ() uint64 { return r.side(White) | r.side(Black) }

// kindAt returns the kind of the piece of colour c on sq (NoPiece if none).
func (r *refPos) kindAt(c Color, sq int) Piece {
	b := refBit(sq)
	k := NoPiece
	for p := Pawn; p <= King; p++ {
		k = Piece(verifIte(r.pc[c][p]&b != 0, uint64(p), uint64(k)))
	}
	return k
}

// symRefPos: an arbitrary assignment of the twelve sets, rights and target.
func symRefPos() *refPos {
	r := &refPos{}
	r.pc[White][Pawn] = nondetU64("wP")
	r.pc[White][Bishop] = nondetU64("wB")
	r.pc[White][Knight] = nondetU64("wN")
	r.pc[White][Rook] = nondetU64("wR")
	r.pc[White][Queen] = nondetU64("wQ")
	r.pc[White][King] = nondetU64("wK")
	r.pc[Black][Pawn] = nondetU64("bP")
	r.pc[Black][Bishop] = nondetU64("bB")
	r.pc[Black][Knight] = nondetU64("bN")
	r.pc[Black][Rook] = nondetU64("bR")
	r.pc[Black][Queen] = nondetU64("bQ")
	r.pc[Black][King] = nondetU64("bK")
	r.castling = nondetU8("castling") & 15 // four rights
	r.ep = int(nondetU8("ep") & 63)
	return r
}

// refDisjoint: no square holds two pieces.
func refDisjoint(r *refPos) bool {
	var acc, clash uint64
	for c := White; c <= Black; c++ {
		for p := Pawn; p <= King; p++ {
			clash |= acc & r.pc[c][p]
			acc |= r.pc[c][p]
		}
	}
	return clash == 0
}

// toPosition builds the morlock Position the way every real position is built:
// colour sets are the unions, the rotated views are derived from the occupancy.
func toPosition(r *refPos) *Position {
	p := &Position{}
	for c := White; c <= Black; c++ {
		for k := Pawn; k <= King; k++ {
			p.pieces[c][k] = Bitboard(r.pc[c][k])
		}
		p.pieces[c][NoPiece] = Bitboard(r.side(c))
	}
	p.rotated = NewRotatedBitboard(Bitboard(r.occ()))
	p.castling = Castling(r.castling)
	p.enpassant = Square(r.ep)
	return p
}

func refPop1(b uint64) bool { return b != 0 && b&(b-1) == 0 }

const (
	refRank1 = uint64(0xff)
	refRank8 = uint64(0xff) << 56
)

// refAttackMap: all squares attacked by colour c in r (sliders stop at the first occupied square).
func refAttackMap(r *refPos, c Color) uint64 {
	occ := r.occ()
	rq := r.pc[c][Rook] | r.pc[c][Queen]
	bq := r.pc[c][Bishop] | r.pc[c][Queen]
	var out uint64
	for a := 0; a < 64; a++ {
		b := refBit(a)
		out |= verifIte(rq&b != 0, refSlide(a, occ, refRookDirs), 0)
		out |= verifIte(bq&b != 0, refSlide(a, occ, refBishopDirs), 0)
		out |= verifIte(r.pc[c][Knight]&b != 0, refJump(a, refKnightOffs), 0)
		out |= verifIte(r.pc[c][King]&b != 0, refJump(a, refKingOffs), 0)
	}
	return out | refPawnCaptures(c, r.pc[c][Pawn])
}

var refAllDirs = [8][2]int{{1, 0}, {-1, 0}, {0, 1}, {0, -1}, {1, 1}, {1, -1}, {-1, 1}, {-1, -1}}

// refBitAt: the bit of square (f, r), or 0 when (f, r) is off the board. Works for symbolic coordinates.
func refBitAt(f, r int) uint64 {
	on := verifAnd(verifAnd(f >= 0, f <= 7), verifAnd(r >= 0, r <= 7))
	return verifIte(on, uint64(1)<<uint((r*8+f)&63), 0)
}

// refAttacked: is square sq attacked by a piece of colour `by`? Written from the target's
// point of view: along each of the eight rays from sq the first occupied square decides
// (rook/queen on ranks and files, bishop/queen on diagonals); knight and king by offset;
// a pawn attacks the two squares diagonally in front of it. sq may be symbolic.
func refAttacked(r *refPos, by Color, sq int) bool {
	occ := r.occ()
	rq := r.pc[by][Rook] | r.pc[by][Queen]
	bq := r.pc[by][Bishop] | r.pc[by][Queen]
	f0, r0 := sq&7, sq>>3
	att := false
	for di, d := range refAllDirs {
		sl := rq
		if di >= 4 {
			sl = bq
		}
		f, rr := f0, r0
		open := true
		for i := 0; i < 7; i++ {
			f += d[0]
			rr += d[1]
			b := refBitAt(f, rr)
			att = verifOr(att, verifAnd(open, sl&b != 0))
			open = verifAnd(open, verifAnd(b != 0, occ&b == 0))
		}
	}
	for _, d := range refKnightOffs {
		att = verifOr(att, r.pc[by][Knight]&refBitAt(f0+d[0], r0+d[1]) != 0)
	}
	for _, d := range refKingOffs {
		att = verifOr(att, r.pc[by][King]&refBitAt(f0+d[0], r0+d[1]) != 0)
	}
	// a white pawn on (f+-1, r-1) attacks (f, r); a black pawn on (f+-1, r+1)
	dr := -1
	if by == Black {
		dr = 1
	}
	att = verifOr(att, r.pc[by][Pawn]&(refBitAt(f0-1, r0+dr)|refBitAt(f0+1, r0+dr)) != 0)
	return att
}

// refKingSq: square of the (single) king of colour c; symbolic ladder over the 64 squares.
func refKingSq(r *refPos, c Color) int {
	k := 0
	for a := 0; a < 64; a++ {
		k = int(verifIte(r.pc[c][King]&refBit(a) != 0, uint64(a), uint64(k)))
	}
	return k
}

// specAttackboard is the specification by which Attackboard is summarised in the harnesses
// that do not target the tables themselves; its equivalence with the real Attackboard for
// every square and occupancy is the C06 table lemma (obligations *_table, rotated_xor).
func specAttackboard(bb RotatedBitboard, sq Square, piece Piece) Bitboard {
	if piece == Pawn || piece == NoPiece || piece > King {
		panic("invalid piece or Pawn")
	}
	if !verifIsSymbolic(uint64(sq)) {
		return Bitboard(refAttacks(piece, int(sq), uint64(bb.rot)))
	}
	return Bitboard(refOfficerFrom(piece, int(sq), uint64(bb.rot)))
}

// refLegalPos: what "legal chess position with `turn` to move" means for the harnesses.
func refLegalPos(r *refPos, turn Color) bool {
	if !refDisjoint(r) {
		return false
	}
	if !refPop1(r.pc[White][King]) || !refPop1(r.pc[Black][King]) {
		return false
	}
	if (r.pc[White][Pawn]|r.pc[Black][Pawn])&(refRank1|refRank8) != 0 {
		return false
	}
	if r.castling > 15 {
		return false
	}
	// a castling right implies king and rook on their home squares
	if r.castling&1 != 0 && (r.pc[White][King]&refBit(3) == 0 || r.pc[White][Rook]&refBit(0) == 0) {
		return false
	}
	if r.castling&2 != 0 && (r.pc[White][King]&refBit(3) == 0 || r.pc[White][Rook]&refBit(7) == 0) {
		return false
	}
	if r.castling&4 != 0 && (r.pc[Black][King]&refBit(59) == 0 || r.pc[Black][Rook]&refBit(56) == 0) {
		return false
	}
	if r.castling&8 != 0 && (r.pc[Black][King]&refBit(59) == 0 || r.pc[Black][Rook]&refBit(63) == 0) {
		return false
	}
	// en-passant target: behind a pawn of the side that just moved, both squares behind it empty
	if r.ep != 0 {
		occ := r.occ()
		if turn == White {
			// black just played e7-e5: target on rank 6 (index 5), pawn on rank 5, origin on rank 7 empty
			if r.ep>>3 != 5 || r.ep > 63 {
				return false
			}
			if occ&refBit(r.ep) != 0 || occ&refBit(r.ep+8) != 0 || r.pc[Black][Pawn]&refBit(r.ep-8) == 0 {
				return false
			}
		} else {
			if r.ep>>3 != 2 {
				return false
			}
			if occ&refBit(r.ep) != 0 || occ&refBit(r.ep-8) != 0 || r.pc[White][Pawn]&refBit(r.ep+8) == 0 {
				return false
			}
		}
	}
	// the side that is not to move must not be in check
	return !refAttacked(r, turn, refKingSq(r, turn.Opponent()))
}

// ---------------------------------------------------------------------------
// Moves: reference pseudo-legality ("GENFORM"), successor and legality.

func symMove() Move {
	return Move{
		Type:      MoveType(nondetU8("m.type")),
		From:      Square(nondetU8("m.from") & 63), // squares are 6-bit by construction
		To:        Square(nondetU8("m.to") & 63),
		Piece:     Piece(nondetU8("m.piece")),
		Promotion: Piece(nondetU8("m.promo")),
		Capture:   Piece(nondetU8("m.capture")),
	}
}

// refSlideSym / refJumpSym: attack sets from a possibly symbolic origin (f0, r0), by walking
// the rays with symbolic coordinates (refBitAt yields 0 off the board).
func refSlideSym(f0, r0 int, occ uint64, dirs [4][2]int) uint64 {
	var out uint64
	for _, d := range dirs {
		f, r := f0, r0
		open := true
		for i := 0; i < 7; i++ {
			f += d[0]
			r += d[1]
			b := refBitAt(f, r)
			out |= verifIte(open, b, 0)
			open = verifAnd(open, verifAnd(b != 0, occ&b == 0))
		}
	}
	return out
}

func refJumpSym(f0, r0 int, offs [8][2]int) uint64 {
	var out uint64
	for _, d := range offs {
		out |= refBitAt(f0+d[0], r0+d[1])
	}
	return out
}

// refOfficerFrom: attack set of an officer of (possibly symbolic) kind on a (possibly symbolic) square.
func refOfficerFrom(kind Piece, from int, occ uint64) uint64 {
	f0, r0 := from&7, from>>3
	rook := refSlideSym(f0, r0, occ, refRookDirs)
	bishop := refSlideSym(f0, r0, occ, refBishopDirs)
	knight := refJumpSym(f0, r0, refKnightOffs)
	king := refJumpSym(f0, r0, refKingOffs)
	out := verifIte(kind == Rook, rook, 0)
	out |= verifIte(kind == Bishop, bishop, 0)
	out |= verifIte(kind == Queen, rook|bishop, 0)
	out |= verifIte(kind == Knight, knight, 0)
	out |= verifIte(kind == King, king, 0)
	return out
}

func refIsPromoKind(p Piece) bool {
	return p == Queen || p == Rook || p == Knight || p == Bishop
}

// refGenForm: m is, field for field, a pseudo-legal move of the rules for `turn` in r:
// the right piece on From, To reachable by that piece's movement rule, the move kind,
// captured piece and promotion piece describing what the move does.
func refGenForm(r *refPos, turn Color, m Move) bool {
	from, to := int(m.From), int(m.To)
	if from > 63 || to > 63 {
		return false
	}
	opp := turn.Opponent()
	occ := r.occ()
	own, enemy := r.side(turn), r.side(opp)
	fb, tb := refBit(from), refBit(to)
	kind := r.kindAt(turn, from)
	if own&fb == 0 || kind != m.Piece {
		return false
	}
	victim := r.kindAt(opp, to)
	toEmpty := occ&tb == 0
	toEnemy := enemy&tb != 0
	fwd := 8
	startRank, promoFrom := 1, 6
	if turn == Black {
		fwd = -8
		startRank, promoFrom = 6, 1
	}
	rank := from >> 3
	pawnCap := refPawnCaptures(turn, fb)&tb != 0
	switch m.Type {
	case Normal:
		if kind == Pawn || kind == NoPiece {
			return false
		}
		return refOfficerFrom(kind, from, occ)&tb != 0 && toEmpty && m.Capture == NoPiece && m.Promotion == NoPiece
	case Capture:
		if m.Promotion != NoPiece || !toEnemy || m.Capture != victim {
			return false
		}
		if kind == Pawn {
			return pawnCap && rank != promoFrom
		}
		return refOfficerFrom(kind, from, occ)&tb != 0
	case Push:
		return kind == Pawn && to == from+fwd && toEmpty && rank != promoFrom && m.Capture == NoPiece && m.Promotion == NoPiece
	case Jump:
		return kind == Pawn && rank == startRank && to == from+2*fwd && toEmpty && occ&refBit(from+fwd) == 0 && m.Capture == NoPiece && m.Promotion == NoPiece
	case EnPassant:
		return kind == Pawn && r.ep != 0 && to == r.ep && pawnCap && m.Capture == NoPiece && m.Promotion == NoPiece
	case Promotion:
		return kind == Pawn && rank == promoFrom && to == from+fwd && toEmpty && m.Capture == NoPiece && refIsPromoKind(m.Promotion)
	case CapturePromotion:
		return kind == Pawn && rank == promoFrom && pawnCap && toEnemy && m.Capture == victim && refIsPromoKind(m.Promotion)
	case KingSideCastle:
		if kind != King || m.Capture != NoPiece || m.Promotion != NoPiece {
			return false
		}
		if turn == White {
			return r.castling&1 != 0 && from == 3 && to == 1 && occ&(refBit(1)|refBit(2)) == 0
		}
		return r.castling&4 != 0 && from == 59 && to == 57 && occ&(refBit(57)|refBit(58)) == 0
	case QueenSideCastle:
		if kind != King || m.Capture != NoPiece || m.Promotion != NoPiece {
			return false
		}
		if turn == White {
			return r.castling&2 != 0 && from == 3 && to == 5 && occ&(refBit(4)|refBit(5)|refBit(6)) == 0
		}
		return r.castling&8 != 0 && from == 59 && to == 61 && occ&(refBit(60)|refBit(61)|refBit(62)) == 0
	}
	return false
}

// refSuccessor: the position the rules prescribe after the pseudo-legal move m.
func refSuccessor(r *refPos, turn Color, m Move) *refPos {
	n := &refPos{}
	*n = *r
	opp := turn.Opponent()
	from, to := int(m.From), int(m.To)
	fb, tb := refBit(from), refBit(to)
	// whatever stands on the destination is captured
	for k := Pawn; k <= King; k++ {
		n.pc[opp][k] &^= tb
	}
	placed := m.Piece
	if m.Type == Promotion || m.Type == CapturePromotion {
		placed = m.Promotion
	}
	for k := Pawn; k <= King; k++ {
		n.pc[turn][k] &^= fb
		if k == placed {
			n.pc[turn][k] |= tb
		}
	}
	if m.Type == EnPassant {
		// the captured pawn stands behind the target square
		if turn == White {
			n.pc[opp][Pawn] &^= refBit(to - 8)
		} else {
			n.pc[opp][Pawn] &^= refBit(to + 8)
		}
	}
	if m.Type == KingSideCastle {
		// rook h -> f
		if turn == White {
			n.pc[turn][Rook] = n.pc[turn][Rook]&^refBit(0) | refBit(2)
		} else {
			n.pc[turn][Rook] = n.pc[turn][Rook]&^refBit(56) | refBit(58)
		}
	}
	if m.Type == QueenSideCastle {
		// rook a -> d
		if turn == White {
			n.pc[turn][Rook] = n.pc[turn][Rook]&^refBit(7) | refBit(4)
		} else {
			n.pc[turn][Rook] = n.pc[turn][Rook]&^refBit(63) | refBit(60)
		}
	}
	// castling rights: dropped when the king or a rook leaves, or a rook is captured on, its home square
	lost := uint8(0)
	if from == 3 {
		lost |= 1 | 2
	}
	if from == 0 || to == 0 {
		lost |= 1
	}
	if from == 7 || to == 7 {
		lost |= 2
	}
	if from == 59 {
		lost |= 4 | 8
	}
	if from == 56 || to == 56 {
		lost |= 4
	}
	if from == 63 || to == 63 {
		lost |= 8
	}
	n.castling = r.castling &^ lost
	// en-passant target only directly after a double step
	n.ep = 0
	if m.Type == Jump {
		if turn == White {
			n.ep = from + 8
		} else {
			n.ep = from - 8
		}
	}
	return n
}

// refLegal: a pseudo-legal move is legal iff it does not leave the mover's king attacked,
// and castling additionally requires that the king is not in check and does not cross an attacked square.
func refLegal(r *refPos, turn Color, m Move) bool {
	opp := turn.Opponent()
	if m.Type == KingSideCastle || m.Type == QueenSideCastle {
		// the king may not be in check nor cross an attacked square
		from := int(m.From)
		cross := from - 1
		if m.Type == QueenSideCastle {
			cross = from + 1
		}
		if refAttacked(r, opp, from) || refAttacked(r, opp, cross) {
			return false
		}
	}
	n := refSuccessor(r, turn, m)
	return !refAttacked(n, opp, refKingSq(n, turn))
}

// samePosition: the morlock position p shows exactly the reference position n in every view.
func samePlacement(p *Position, n *refPos) bool {
	ok := true
	for c := White; c <= Black; c++ {
		for k := Pawn; k <= King; k++ {
			ok = verifAnd(ok, uint64(p.pieces[c][k]) == n.pc[c][k])
		}
		ok = verifAnd(ok, uint64(p.pieces[c][NoPiece]) == n.side(c))
	}
	return ok
}
