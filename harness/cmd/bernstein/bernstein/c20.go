package bernstein

import (
	"context"

	"github.com/herohde/morlock/pkg/board"
	"github.com/herohde/morlock/pkg/board/fen"
)

// BERNSTEIN nominal material: colour-blind; opening book: every reply is legal.
func Harness_C20_BernsteinMaterial() {
	wk, bk := 3, 59 // squares are fixed (the material evaluations count pieces); kinds and colours are symbolic
	pl := []board.Placement{{Square: board.Square(wk), Color: board.White, Piece: board.King}, {Square: board.Square(bk), Color: board.Black, Piece: board.King}}
	for i := 0; i < 4; i++ {
		sq := [6]int{10, 21, 36, 46, 49, 62}[i]
		c := board.Color(nondetU8("colour") & 1)
		k := board.Piece(nondetU8("kind") & 7)
		verifAssume(k >= board.Pawn && k <= board.Queen)
		pl = append(pl, board.Placement{Square: board.Square(sq), Color: c, Piece: k})
	}
	var ml []board.Placement
	for _, p := range pl {
		ml = append(ml, board.Placement{Square: p.Square ^ 56, Color: p.Color.Opponent(), Piece: p.Piece})
	}
	pos, _ := board.NewPosition(pl, 0, 0)
	mir, _ := board.NewPosition(ml, 0, 0)
	side := board.Color(nondetU8("side") & 1)
	verifReach("bernstein-material")
	verifAssert(Material(pos, side) == Material(mir, side.Opponent()), "BERNSTEIN nominal material is colour-blind")
	verifAssert(Material(pos, side) >= 0 && Material(pos, side) <= 4*9, "BERNSTEIN nominal material is bounded by the pieces present")
}

func bookRepliesLegal(key string, replies []board.Move) bool {
	pos, turn, _, _, err := fen.Decode(key + " 0 1")
	if err != nil || pos == nil {
		return false
	}
	legal := pos.LegalMoves(turn)
	for _, r := range replies {
		ok := false
		for _, m := range legal {
			if m.From == r.From && m.To == r.To && m.Promotion == r.Promotion {
				ok = true
			}
		}
		if !ok {
			return false
		}
	}
	return len(replies) > 0
}

func Harness_C20_BernsteinBook() {
	b := NewBook()
	verifReach("bernstein-book")
	moves, err := b.Find(context.Background(), fen.Initial)
	verifAssert(err == nil && bookRepliesLegal(fen.Strip(fen.Initial), moves), "every BERNSTEIN book reply is legal in the position it is keyed on")
}
