package bernstein

import (
	"math"
	"context"

	"github.com/herohde/morlock/pkg/board"
	"github.com/herohde/morlock/pkg/board/fen"
)

// BERNSTEIN nominal material: colour-blind; opening book: every reply is legal.
func Harness_C20_BernsteinMaterial() {
	wk, bk := 3, 59 // squares are fixed (the material evaluations count pieces); kinds and colours are symbolic
	pl := []board.Placement{{Square: board.Square(wk), Color: board.White, Piece: board.King}, {Square: board.Square(bk), Color: board.Black, Piece: board.King}}
	for i := 0; i < 4; i++ {
		sq := [6]int{10, 21, 36, 46, 49, 62}[i]
		c := board.Color(nondetU8("colour") & 1)
		k := board.Piece(nondetU8("kind") & 7)
		verifAssume(k >= board.Pawn && k <= board.Queen)
		pl = append(pl, board.Placement{Square: board.Square(sq), Color: c, Piece: k})
	}
	var ml []board.Placement
	for _, p := range pl {
		ml = append(ml, board.Placement{Square: p.Square ^ 56, Color: p.Color.Opponent(), Piece: p.Piece})
	}
	pos, _ := board.NewPosition(pl, 0, 0)
	mir, _ := board.NewPosition(ml, 0, 0)
	side := board.Color(nondetU8("side") & 1)
	verifReach("bernstein-material")
	verifAssert(Material(pos, side) == Material(mir, side.Opponent()), "BERNSTEIN nominal material is colour-blind")
	verifAssert(Material(pos, side) >= 0 && Material(pos, side) <= 4*9, "BERNSTEIN nominal material is bounded by the pieces present")
}

func bookRepliesLegal(key string, replies []board.Move) bool {
	pos, turn, _, _, err := fen.Decode(key + " 0 1")
	if err != nil || pos == nil {
		return false
	}
	legal := pos.LegalMoves(turn)
	for _, r := range replies {
		ok := false
		for _, m := range legal {
			if m.From == r.From && m.To == r.To && m.Promotion == r.Promotion {
				ok = true
			}
		}
		if !ok {
			return false
		}
	}
	return len(replies) > 0
}

func Harness_C20_BernsteinBook() {
	b := NewBook()
	verifReach("bernstein-book")
	moves, err := b.Find(context.Background(), fen.Initial)
	verifAssert(err == nil && bookRepliesLegal(fen.Strip(fen.Initial), moves), "every BERNSTEIN book reply is legal in the position it is keyed on")
}

// ---- BERNSTEIN ratio evaluation: finite whatever the four considerations count ----
// The four considerations are replaced by arbitrary non-negative counts per side (they are
// counts of moves, squares and pieces); the real per-side Evaluate (floor at 1) and the real
// Eval.Evaluate (ratio of the two sides) run on them.
var specComp [4][2]int

func specMobility(pos *board.Position, side board.Color) int    { return specComp[0][side] }
func specControl(pos *board.Position, side board.Color) int     { return specComp[1][side] }
func specKingDefense(pos *board.Position, side board.Color) int { return specComp[2][side] }
func specMaterial(pos *board.Position, side board.Color) int    { return specComp[3][side] }

func Harness_C20_BernsteinRatio() {
	for i := 0; i < 4; i++ {
		for s := 0; s < 2; s++ {
			v := nondetInt("count")
			verifAssume(v >= 0 && v <= 1<<16)
			specComp[i][s] = v
		}
	}
	factor := nondetInt("factor")
	verifAssume(factor >= 0 && factor <= 1<<10)
	pos, turn, np, fm, err := fen.Decode(fen.Initial)
	if err != nil {
		panic("bad position")
	}
	if nondetBool("black") {
		turn = turn.Opponent()
	}
	b := board.NewBoard(board.NewZobristTable(1), pos, turn, np, fm)
	verifReach("bernstein-ratio")
	self, opp := Evaluate(pos, factor, turn), Evaluate(pos, factor, turn.Opponent())
	verifAssert(self >= 1 && opp >= 1, "each side's BERNSTEIN score is at least 1 (it is the divisor of the ratio)")
	v := float64(Eval{Factor: factor}.Evaluate(context.Background(), b))
	verifAssert(!math.IsNaN(v) && !math.IsInf(v, 0), "the BERNSTEIN evaluation is a finite number")
	verifAssert((v > 0) == (self > opp) && (v < 0) == (self < opp), "the BERNSTEIN evaluation favours the side with the larger score")
}

// ---- BERNSTEIN plausible-move selection: Explore = Selection(truncate(FindPlausibleMoves)) ----
// FindPlausibleMoves is replaced by an arbitrary list of distinct moves; the real truncate and
// the real search.Selection decide which of them the search may play.
var specPMT []board.Move

func specFindPlausibleMoves(b *board.Board) []board.Move { return specPMT }

func symBMove() board.Move {
	m := board.Move{Type: board.MoveType(nondetU8("type") & 15), From: board.Square(nondetU8("from") & 63), To: board.Square(nondetU8("to") & 63), Piece: board.Piece(nondetU8("piece") & 7), Promotion: board.Piece(nondetU8("promo") & 7), Capture: board.Piece(nondetU8("capture") & 7)}
	return m
}

func harnessBernsteinExplore(maxN int) {
	n := int(verifSplit(uint64(nondetU8("n")), 0, uint64(maxN)))
	limit := int(verifSplit(uint64(nondetU8("limit")), 0, uint64(maxN+1))) // 0 = no limit
	specPMT = nil
	for i := 0; i < n; i++ {
		m := symBMove()
		for _, x := range specPMT {
			verifAssume(x != m)
		}
		specPMT = append(specPMT, m)
	}
	verifReach("bernstein-explore")
	prio, pick := PlausibleMoveTable{Limit: limit}.Explore(context.Background(), nil)
	k := n
	if limit > 0 && limit < n {
		k = limit
	}
	for i := 0; i < k; i++ {
		verifAssert(pick(specPMT[i]), "every plausible move within the branch limit is selected: at least one whenever there is a plausible move")
		for j := i + 1; j < k; j++ {
			verifAssert(prio(specPMT[i]) > prio(specPMT[j]), "plausible moves are explored in table order")
		}
	}
	m := symBMove()
	in := false
	for i := 0; i < k; i++ {
		in = in || specPMT[i] == m
	}
	verifAssert(pick(m) == in, "exactly the plausible moves within the branch limit are selected")
}

func Harness_C20_BernsteinExplore3() { harnessBernsteinExplore(3) }
func Harness_C20_BernsteinExplore5() { harnessBernsteinExplore(5) }

// FindPlausibleMoves on concrete positions (single reply to a check, castling as the only
// plausible move, stalemate, ordinary positions): legal moves only, each once, some move
// whenever a legal move exists (concrete evaluation of the real routine in the interpreter).
var plausibleRoots = []string{
	"7k/8/8/8/8/8/6PP/1r4K1 w - - 0 1",
	"1R4k1/6pp/8/8/8/8/8/7K b - - 0 1",
	"r1bqk2r/pppp1ppp/2nbpn2/6B1/3P4/2PB1N2/PP3PPP/RN1Q1RK1 b kq - 5 7",
	"rnbqkbnr/pppppppp/8/8/8/8/PPPPPPPP/RNBQKBNR w KQkq - 0 1",
	"7k/5Q2/6K1/8/8/8/8/8 b - - 0 1",
	"4k3/8/8/8/8/8/8/4K2R w K - 0 1",
}

func Harness_C20_BernsteinPlausible() {
	verifReach("bernstein-plausible")
	for _, f := range plausibleRoots {
		pos, turn, np, fm, err := fen.Decode(f)
		if err != nil {
			panic("bad root")
		}
		b := board.NewBoard(board.NewZobristTable(1), pos, turn, np, fm)
		legal := pos.LegalMoves(turn)
		list := FindPlausibleMoves(b)
		for i, m := range list {
			ok := false
			for _, l := range legal {
				ok = ok || l == m
			}
			verifAssert(ok, "every plausible move is a legal move")
			for j := 0; j < i; j++ {
				verifAssert(list[j] != m, "each plausible move is listed once")
			}
		}
		verifAssert((len(list) > 0) == (len(legal) > 0), "some move is plausible whenever a legal move exists")
	}
}
