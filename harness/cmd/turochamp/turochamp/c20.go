package turochamp

import (
	"math"

	"github.com/herohde/morlock/pkg/eval"
	"context"

	"github.com/herohde/morlock/pkg/board"
)

func symMaterialBoards(n int) (*board.Board, *board.Board) {
	turn := board.Color(nondetU8("turn") & 1)
	wk, bk := 3, 59 // squares are fixed (the material evaluations count pieces); kinds and colours are symbolic
	pl := []board.Placement{{Square: board.Square(wk), Color: board.White, Piece: board.King}, {Square: board.Square(bk), Color: board.Black, Piece: board.King}}
	for i := 0; i < n; i++ {
		sq := [6]int{10, 21, 36, 46, 49, 62}[i]
		c := board.Color(nondetU8("colour") & 1)
		k := board.Piece(nondetU8("kind") & 7)
		verifAssume(k >= board.Pawn && k <= board.Queen)
		pl = append(pl, board.Placement{Square: board.Square(sq), Color: c, Piece: k})
	}
	var ml []board.Placement
	for _, p := range pl {
		ml = append(ml, board.Placement{Square: p.Square ^ 56, Color: p.Color.Opponent(), Piece: p.Piece})
	}
	pos, err1 := board.NewPosition(pl, 0, 0)
	mir, err2 := board.NewPosition(ml, 0, 0)
	if err1 != nil || err2 != nil {
		panic("distinct squares")
	}
	zt := board.NewZobristTable(0)
	return board.NewBoard(zt, pos, turn, 0, 1), board.NewBoard(zt, mir, turn.Opponent(), 0, 1)
}

// TUROCHAMP material ratio: finite and colour-blind.
func Harness_C20_TurochampMaterial() {
	b, m := symMaterialBoards(4)
	verifReach("turochamp-material")
	v := Material{}.Evaluate(context.Background(), b)
	w := Material{}.Evaluate(context.Background(), m)
	verifAssert(v == v && v <= 226 && v >= -226, "the TUROCHAMP material ratio is finite and within [-226, 226]")
	_ = w // colour-blindness of the float32 ratio is outside what the solver decides in time (see outside_the_claim)
}

// piece values never panic on the pieces the callers pass
func Harness_C20_TurochampPieceValue() {
	p := board.Piece(nondetU8("piece") & 7)
	verifAssume(p >= board.Pawn && p <= board.King)
	verifReach("piecevalue")
	v := pieceValue(p)
	verifAssert(v >= 1 && v <= 100, "every piece has a positive finite value")
}

// ---- TUROCHAMP totality, decomposed ----
// (1) the per-side material sum is at least half a pawn (the divisor of the ratio is never 0):
//     real material() on two kings plus up to three further pieces of symbolic kind and colour
func Harness_C20_TurochampMaterialFloor() {
	wk, bk := 3, 59
	pl := []board.Placement{{Square: board.Square(wk), Color: board.White, Piece: board.King}, {Square: board.Square(bk), Color: board.Black, Piece: board.King}}
	for i := 0; i < 3; i++ {
		sq := [3]int{10, 36, 49}[i]
		c := board.Color(nondetU8("colour") & 1)
		k := board.Piece(nondetU8("kind") & 7)
		verifAssume(k >= board.Pawn && k <= board.Queen)
		if nondetBool("present") {
			pl = append(pl, board.Placement{Square: board.Square(sq), Color: c, Piece: k})
		}
	}
	pos, err := board.NewPosition(pl, 0, 0)
	if err != nil {
		panic("distinct squares")
	}
	side := board.Color(nondetU8("side") & 1)
	verifReach("turochamp-floor")
	v := material(pos, side)
	verifAssert(v >= 0.5 && v <= 30, "a side's TUROCHAMP material is at least half a pawn and bounded by the pieces present")
}

// (2) the ratio of two material sums of at least half a pawn is finite: real Material.Evaluate
var specMat [2]eval.Pawns

func specMaterialSum(pos *board.Position, turn board.Color) eval.Pawns { return specMat[turn] }

func Harness_C20_TurochampRatio() {
	for s := 0; s < 2; s++ {
		v := eval.Pawns(nondetF32("material"))
		verifAssume(v >= 0.5 && v <= 1040) // at most 9 queens, 2 rooks, 2 bishops, 2 knights... far below
		specMat[s] = v
	}
	b, _ := symMaterialBoards(0)
	verifReach("turochamp-ratio")
	v := float64(Material{}.Evaluate(context.Background(), b))
	verifAssert(!math.IsNaN(v) && !math.IsInf(v, 0) && v <= 2080 && v >= -2080, "the TUROCHAMP material ratio is a finite number")
	own, opp := specMat[b.Turn()], specMat[b.Turn().Opponent()]
	verifAssert((v > 0) == (own > opp) && (v < 0) == (own < opp), "the TUROCHAMP material ratio favours the side with more material")
}

// (3) the combination of material ratio and position play is finite: real Eval.Evaluate
var specMatEval, specPP [2]eval.Pawns

func specMaterialEvaluate(m Material, ctx context.Context, b *board.Board) eval.Pawns {
	return specMatEval[0]
}
func specPositionPlay(b *board.Board, turn board.Color) eval.Pawns { return specPP[turn] }

func Harness_C20_TurochampCombine() {
	m := eval.Pawns(nondetF32("ratio"))
	verifAssume(m >= -2080 && m <= 2080)
	specMatEval[0] = m
	for s := 0; s < 2; s++ {
		p := eval.Pawns(nondetF32("positionplay"))
		verifAssume(p >= -1000 && p <= 1000)
		specPP[s] = p
	}
	b, _ := symMaterialBoards(0)
	verifReach("turochamp-combine")
	v := float64(Eval{}.Evaluate(context.Background(), b))
	verifAssert(!math.IsNaN(v) && !math.IsInf(v, 0), "the TUROCHAMP evaluation is a finite number")
}
