package sargon

import (
	"context"

	"github.com/herohde/morlock/pkg/board"
	"github.com/herohde/morlock/pkg/board/fen"
	"github.com/herohde/morlock/pkg/eval"
	"github.com/herohde/morlock/pkg/search"
)

// C18 (SARGON part): SARGON is the one searcher of the repository that carries mutable
// state between searches (Points: the root's side and board-control baseline). Whatever
// earlier searches left there is modelled as an arbitrary pre-state (symbolic side0 and
// brdc0, any float including NaN and infinities); the search on the given game state must
// return what a brand-new searcher returns.

func sargonSearcher(p *Points) Hook {
	return Hook{
		Eval: search.AlphaBeta{
			Explore: SkipUnderPromotions,
			Eval:    OnePlyIfChecked{Leaf: search.Leaf{Eval: p}},
		},
		Hook: p,
	}
}

var sargonRoots = []string{
	"4k3/8/8/3p4/4P3/8/8/4K3 w - - 0 1",
	"4k3/8/8/8/8/2n5/1P6/4K3 b - - 0 1",
	"r3k3/8/8/8/8/8/8/4K2R w K - 0 1",
}

func harnessSargonHistory(root, depth int) {
	ctx := context.Background()
	pos, turn, np, fm, err := fen.Decode(sargonRoots[root])
	if err != nil {
		panic("bad root")
	}
	mk := func() *board.Board { return board.NewBoard(board.NewZobristTable(1), pos, turn, np, fm) }

	used := &Points{side0: board.Color(nondetU8("side0") & 1), brdc0: eval.Pawns(nondetF32("brdc0"))}
	fresh := &Points{}
	verifReach("sargon-history")
	n1, s1, pv1, e1 := sargonSearcher(used).Search(ctx, &search.Context{TT: search.NoTranspositionTable{}}, mk(), depth)
	n2, s2, pv2, e2 := sargonSearcher(fresh).Search(ctx, &search.Context{TT: search.NoTranspositionTable{}}, mk(), depth)
	verifAssert(e1 == nil && e2 == nil, "searches complete")
	same := len(pv1) == len(pv2)
	if same {
		for i := range pv1 {
			same = same && pv1[i].From == pv2[i].From && pv1[i].To == pv2[i].To && pv1[i].Promotion == pv2[i].Promotion
		}
	}
	verifAssert(n1 == n2 && s1 == s2 && same, "a SARGON search returns the same nodes, score and variation whatever earlier searches left in the searcher")
}

func Harness_C18_Sargon_R0_D2() { harnessSargonHistory(0, 2) }
func Harness_C18_Sargon_R1_D2() { harnessSargonHistory(1, 2) }
func Harness_C18_Sargon_R2_D2() { harnessSargonHistory(2, 2) }
func Harness_C18_Sargon_R0_D3() { harnessSargonHistory(0, 3) }
func Harness_C18_Sargon_R0_D1() { harnessSargonHistory(0, 1) }
