package sargon

import (
	"math"

	"github.com/herohde/morlock/pkg/eval"
	"context"

	"github.com/herohde/morlock/pkg/board"
	"github.com/herohde/morlock/pkg/board/fen"
)

// SARGON opening book: every stored reply is legal in the position decoded from its key
// (finite table: concrete evaluation in the interpreter).
func Harness_C20_SargonBook() {
	b := NewBook()
	verifReach("sargon-book")
	n := 0
	for key, replies := range b.moves {
		pos, turn, _, _, err := fen.Decode(key + " 0 1")
		verifAssert(err == nil && pos != nil, "every SARGON book key is a position")
		if err != nil || pos == nil {
			continue
		}
		legal := pos.LegalMoves(turn)
		for _, r := range replies {
			ok := false
			for _, m := range legal {
				if m.From == r.From && m.To == r.To && m.Promotion == r.Promotion {
					ok = true
				}
			}
			verifAssert(ok, "every SARGON book reply is legal in the position it is keyed on")
		}
		n++
	}
	verifAssert(n == 21, "the SARGON book holds the start position and the twenty positions after White's first move")
}

// the no-under-promotion filter: selects exactly the moves that are not under-promotions,
// hence at least one (the queen promotion) of every group of four promotions
func Harness_C20_SkipUnderPromotions() {
	m := board.Move{Type: board.MoveType(nondetU8("type") & 15), From: board.Square(nondetU8("from") & 63), To: board.Square(nondetU8("to") & 63), Piece: board.Piece(nondetU8("piece") & 7), Promotion: board.Piece(nondetU8("promo") & 7), Capture: board.Piece(nondetU8("capture") & 7)}
	verifAssume(m.Type >= board.Normal && m.Type <= board.CapturePromotion)
	_, pick := SkipUnderPromotions(context.Background(), nil)
	verifReach("skip-underpromotions")
	isPromo := m.Type == board.Promotion || m.Type == board.CapturePromotion
	verifAssert(pick(m) == !(isPromo && m.Promotion != board.Queen), "the filter keeps exactly the moves that are not under-promotions")
	q := m
	q.Promotion = board.Queen
	verifAssert(pick(q), "of the four promotions of a pawn the queen promotion is always kept: the filter never empties a non-empty move list")
}

// ---- SARGON points: finite for bounded material and board-control terms ----
// BoardControl and Material (sums of small per-piece terms) are replaced by arbitrary bounded
// values, the root baseline is an arbitrary bounded value; the real Points.Evaluate combines them.
var specBrdc, specMtrl eval.Pawns
var specPtschk bool

func specBoardControl(ctx context.Context, b *board.Board, pins Pins) eval.Pawns { return specBrdc }
func specSargonMaterial(ctx context.Context, b *board.Board, pins Pins) (eval.Pawns, bool) {
	return specMtrl, specPtschk
}

func Harness_C20_SargonPointsFinite() {
	specBrdc = eval.Pawns(nondetF32("brdc"))
	specMtrl = eval.Pawns(nondetF32("mtrl"))
	base := eval.Pawns(nondetF32("brdc0"))
	verifAssume(specBrdc >= -10000 && specBrdc <= 10000 && specMtrl >= -10000 && specMtrl <= 10000 && base >= -10000 && base <= 10000)
	specPtschk = nondetBool("ptschk")
	p := &Points{side0: board.Color(nondetU8("side0") & 1), brdc0: base}
	pos, turn, np, fm, err := fen.Decode(fen.Initial)
	if err != nil {
		panic("bad position")
	}
	b := board.NewBoard(board.NewZobristTable(1), pos, turn, np, fm)
	verifReach("sargon-points")
	v := float64(p.Evaluate(context.Background(), b))
	verifAssert(!math.IsNaN(v) && !math.IsInf(v, 0) && v <= 50107 && v >= -50107, "the SARGON evaluation is a finite number")
}
