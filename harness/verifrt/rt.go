// Package verifrt holds interpretable replacements for the few library functions the code
// under test uses on strings. They work on runes, so the symbolic executor can run them on
// strings whose runes are symbolic. The executor redirects the library calls here.
package verifrt

import (
	"context"
	"sync/atomic"
	"time"
)

// ---- primitives provided by the executor (body-less) ----

// intOf: if x holds a value of integer kind, its value (sign-extended or zero-extended to 64 bits).
func intOf(x interface{}) (v int64, ok bool, unsigned bool)

// strOf: if x holds a value of string kind.
func strOf(x interface{}) (s string, ok bool)

// boolOf: if x holds a bool.
func boolOf(x interface{}) (b bool, ok bool)

// opaque: a fixed placeholder for values that cannot be formatted (floats, structs without String).
func opaque(x interface{}) string

type stringer interface{ String() string }

// ---- strconv ----

func Itoa(n int) string { return itoa64(int64(n), false) }

func itoa64(v int64, unsigned bool) string {
	u := uint64(v)
	neg := false
	if !unsigned && v < 0 {
		neg = true
		u = uint64(-v)
	}
	if u == 0 {
		return "0"
	}
	s := ""
	for u > 0 {
		s = string(rune('0'+u%10)) + s
		u /= 10
	}
	if neg {
		s = "-" + s
	}
	return s
}

func hex64(u uint64) string {
	if u == 0 {
		return "0"
	}
	s := ""
	for u > 0 {
		d := u % 16
		if d < 10 {
			s = string(rune('0'+d)) + s
		} else {
			s = string(rune('a'+d-10)) + s
		}
		u /= 16
	}
	return s
}

type numError struct{ msg string }

func (e *numError) Error() string { return e.msg }

// Atoi: decimal integer with optional sign; more than 18 digits are reported as out of range
// (the harnesses never build such strings; stated in the evidence).
func Atoi(s string) (int, error) {
	r := []rune(s)
	i := 0
	neg := false
	if len(r) > 0 && (r[0] == '+' || r[0] == '-') {
		neg = r[0] == '-'
		i = 1
	}
	if i >= len(r) {
		return 0, &numError{"strconv.Atoi: invalid syntax"}
	}
	if len(r)-i > 18 {
		return 0, &numError{"strconv.Atoi: value out of range"}
	}
	n := 0
	for ; i < len(r); i++ {
		c := r[i]
		if c < '0' || c > '9' {
			return 0, &numError{"strconv.Atoi: invalid syntax"}
		}
		n = n*10 + int(c-'0')
	}
	if neg {
		n = -n
	}
	return n, nil
}

func ParseBool(s string) (bool, error) {
	switch s {
	case "1", "t", "T", "TRUE", "true", "True":
		return true, nil
	case "0", "f", "F", "FALSE", "false", "False":
		return false, nil
	}
	return false, &numError{"strconv.ParseBool: invalid syntax"}
}

// ---- strings ----

func isSpace(r rune) bool {
	switch r {
	case '\t', '\n', '\v', '\f', '\r', ' ', 0x85, 0xA0, 0x1680, 0x2028, 0x2029, 0x202f, 0x205f, 0x3000:
		return true
	}
	return r >= 0x2000 && r <= 0x200a
}

func TrimSpace(s string) string {
	r := []rune(s)
	lo, hi := 0, len(r)
	for lo < hi && isSpace(r[lo]) {
		lo++
	}
	for hi > lo && isSpace(r[hi-1]) {
		hi--
	}
	return string(r[lo:hi])
}

// Split: separators of exactly one rune (all the code under test uses).
func Split(s, sep string) []string {
	sr := []rune(sep)
	if len(sr) != 1 {
		panic("verifrt.Split: separator must be one rune")
	}
	r := []rune(s)
	var out []string
	start := 0
	for i := 0; i < len(r); i++ {
		if r[i] == sr[0] {
			out = append(out, string(r[start:i]))
			start = i + 1
		}
	}
	return append(out, string(r[start:]))
}

func Join(elems []string, sep string) string {
	s := ""
	for i, e := range elems {
		if i > 0 {
			s += sep
		}
		s += e
	}
	return s
}

func HasPrefix(s, prefix string) bool {
	r, p := []rune(s), []rune(prefix)
	if len(p) > len(r) {
		return false
	}
	for i := range p {
		if r[i] != p[i] {
			return false
		}
	}
	return true
}

func TrimPrefix(s, prefix string) string {
	if HasPrefix(s, prefix) {
		return string([]rune(s)[len([]rune(prefix)):])
	}
	return s
}

// ToLower / ToUpper: exact on ASCII; other runes are passed through (the executor reports
// an unsupported path if a non-ASCII rune can reach them).
func ToLower(s string) string {
	r := []rune(s)
	for i, c := range r {
		if c >= 'A' && c <= 'Z' {
			r[i] = c + 32
		}
	}
	return string(r)
}

func ToUpper(s string) string {
	r := []rune(s)
	for i, c := range r {
		if c >= 'a' && c <= 'z' {
			r[i] = c - 32
		}
	}
	return string(r)
}

// ---- fmt ----

type fmtError struct{ msg string }

func (e *fmtError) Error() string { return e.msg }

func Errorf(format string, args ...interface{}) error {
	return &fmtError{msg: format} // the text of errors is never inspected by the code under test
}

func formatArg(verb rune, x interface{}) string {
	if x == nil {
		return "<nil>"
	}
	if verb == 'v' || verb == 's' {
		if e, ok := x.(error); ok {
			return e.Error()
		}
		if s, ok := x.(stringer); ok {
			return s.String()
		}
	}
	if s, ok := strOf(x); ok {
		return s
	}
	if v, ok, uns := intOf(x); ok {
		switch verb {
		case 'x':
			return hex64(uint64(v))
		case 'c':
			return string(rune(v))
		}
		return itoa64(v, uns)
	}
	if b, ok := boolOf(x); ok {
		if b {
			return "true"
		}
		return "false"
	}
	return opaque(x)
}

// Sprintf: %v %d %s %x %c %q(as %v) and %%; flags and precisions are skipped.
func Sprintf(format string, args ...interface{}) string {
	f := []rune(format)
	out := ""
	ai := 0
	for i := 0; i < len(f); i++ {
		if f[i] != '%' {
			out += string(f[i])
			continue
		}
		i++
		for i < len(f) && (f[i] == '.' || f[i] == '-' || f[i] == '+' || f[i] == '#' || f[i] == ' ' || (f[i] >= '0' && f[i] <= '9')) {
			i++
		}
		if i >= len(f) {
			break
		}
		if f[i] == '%' {
			out += "%"
			continue
		}
		if ai < len(args) {
			out += formatArg(f[i], args[ai])
			ai++
		} else {
			out += "%!(MISSING)"
		}
	}
	return out
}

func Sprint(args ...interface{}) string {
	out := ""
	for _, a := range args {
		out += formatArg('v', a)
	}
	return out
}

// ---- context (cancellation only) ----

type cancelCtx struct {
	parent context.Context
	done   chan struct{}
	closed int32
}

func (c *cancelCtx) Deadline() (time.Time, bool) { return time.Time{}, false }
func (c *cancelCtx) Done() <-chan struct{}       { return c.done }
func (c *cancelCtx) Err() error {
	if atomic.LoadInt32(&c.closed) != 0 {
		return context.Canceled
	}
	return nil
}
func (c *cancelCtx) Value(key interface{}) interface{} { return nil }
func (c *cancelCtx) cancel() {
	if atomic.CompareAndSwapInt32(&c.closed, 0, 1) {
		close(c.done)
	}
}

// WithCancel: a child context that is cancelled by its cancel function or with its parent.
func WithCancel(parent context.Context) (context.Context, context.CancelFunc) {
	c := &cancelCtx{parent: parent, done: make(chan struct{})}
	if pd := parent.Done(); pd != nil {
		go func() {
			select {
			case <-pd:
				c.cancel()
			case <-c.done:
			}
		}()
	}
	return c, c.cancel
}
